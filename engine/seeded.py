#!/usr/bin/env python3
"""
Seeded-defect bookkeeping.

  seeded.py import <worktree> <mutant_dir> <name>   verify a mutant produced by a sub-agent in its scratch
                                                     worktree (tests pass with it, demo fails with it and
                                                     passes without) and keep it as /verif/seeded/<name>/
  seeded.py eval <name> [--tier quick] [--props C01,C03]
                                                     apply the patch to /repo, run the checks, undo, record
"""
import json
import os
import re
import shutil
import subprocess
import sys
import time

V = os.path.dirname(os.path.dirname(os.path.abspath(__file__)))
REPO = "/repo"


def sh(cmd, cwd=None, timeout=1800):
    r = subprocess.run(cmd, shell=True, cwd=cwd, stdout=subprocess.PIPE, stderr=subprocess.STDOUT, timeout=timeout)
    return r.returncode, r.stdout.decode(errors="replace")


def demo_cmd(path):
    txt = open(path, errors="replace").read().split("\n")[:40]
    for l in txt:
        m = re.search(r"((?:gcc|g\+\+|cc|c\+\+|sh|bash)\s.+)$", l)
        if m and ("&&" in l or "demo" in l):
            return m.group(1).strip().rstrip("*/ ")
    return None


def do_import(wt, mdir, name):
    dst = os.path.join(V, "seeded", name)
    os.makedirs(dst, exist_ok=True)
    meta = json.load(open(os.path.join(mdir, "meta.json")))
    demo = [f for f in os.listdir(mdir) if f.startswith("demo")][0]
    cmd = demo_cmd(os.path.join(mdir, demo))
    if not cmd:
        print("no demo command found")
        return 2
    ran = []

    def step(desc, c, expect_zero):
        rc, out = sh(c, cwd=wt)
        ok = (rc == 0) == expect_zero
        ran.append({"step": desc, "cmd": c, "rc": rc, "ok": ok, "tail": out[-400:]})
        print("  %-40s rc=%d %s" % (desc, rc, "ok" if ok else "UNEXPECTED"))
        return ok

    build = "cmake -G Ninja -B _build -S . >/dev/null && cmake --build _build 2>&1 | tail -2"
    ok = True
    ok &= step("clean tree", "git checkout -- . && git status --short | grep -v '^??' | wc -l", True)
    ok &= step("apply patch", "git apply %s" % os.path.join(mdir, "patch.diff"), True)
    ok &= step("build with patch", build, True)
    rc, out = sh("ctest --test-dir _build -j8 2>&1 | tail -4", cwd=wt)
    passed = "100% tests passed" in out
    ran.append({"step": "ctest with patch", "rc": rc, "ok": passed, "tail": out[-300:]})
    print("  %-40s %s" % ("ctest with patch", "29/29" if passed else "FAILED: " + out[-200:]))
    ok &= passed
    ok &= step("demo with patch (must fail)", cmd, False)
    ok &= step("revert", "git checkout -- .", True)
    ok &= step("build without patch", build, True)
    ok &= step("demo without patch (must pass)", cmd, True)
    for f in ("patch.diff", demo, "meta.json"):
        shutil.copy(os.path.join(mdir, f), os.path.join(dst, f))
    meta["confirmed"] = bool(ok)
    meta["ran"] = ran
    meta["demo_cmd"] = cmd
    meta["base_commit"] = sh("git rev-parse HEAD", cwd=wt)[1].strip()
    json.dump(meta, open(os.path.join(dst, "meta.json"), "w"), indent=1)
    print("confirmed" if ok else "NOT CONFIRMED", name)
    if not ok:
        shutil.rmtree(dst)
    return 0 if ok else 1


def do_eval(name, tier, props, scratch=False, only=None):
    """scratch=False: apply to /repo itself (git apply, run, git checkout -- .).
    scratch=True: apply in a throw-away worktree of /repo's HEAD and point the checks at it
    (VERIF_REPO); evidence/replays of that run go to a temp dir so that /verif/evidence keeps
    describing the unchanged tree.  Same sources either way."""
    global REPO
    d = os.path.join(V, "seeded", name)
    meta = json.load(open(os.path.join(d, "meta.json")))
    props = props or [meta["property"]]
    env_prefix = ""
    wt = None
    if scratch:
        wt = "/tmp/evalwt-%s" % name
        sh("git -C /repo worktree remove --force %s" % wt)
        rc, out = sh("git -C /repo worktree add -f --detach %s HEAD" % wt)
        if rc:
            print(out)
            return 2
        REPO = wt
        env_prefix = "VERIF_REPO=%s VERIF_EVIDENCE_DIR=%s/_evidence VERIF_REPLAY_DIR=%s/_replays " % (wt, wt, wt)
    rc, out = sh("git status --short | grep -v '^??' | wc -l", cwd=REPO)
    if out.strip() != "0":
        print("%s has local modifications; refusing" % REPO)
        return 2
    rc, out = sh("git apply %s" % os.path.join(d, "patch.diff"), cwd=REPO)
    if rc:
        print("patch does not apply:", out)
        return 2
    res = {}
    try:
        for p in props:
            t0 = time.time()
            rc, out = sh(env_prefix + "./check %s --tier %s%s" % (p, tier, (" --only '%s'" % only) if only else ""), cwd=V, timeout=7200)
            viol = [l for l in out.splitlines() if l.startswith("VIOLATION")]
            det = [l.strip() for l in out.splitlines() if l.strip().startswith("query=")]
            res[p] = {"applied_in": "scratch worktree of /repo HEAD" if scratch else "/repo", "exit": rc, "violations": viol, "details": det[:6], "wall_s": round(time.time() - t0, 1),
                      "summary": [l for l in out.splitlines() if l.startswith("SUMMARY")], **({"only": only} if only else {})}
            print("  %s %s: exit %d, %d VIOLATION line(s) %s" % (name, p, rc, len(viol), det[:1]))
    finally:
        sh("git checkout -- .", cwd=REPO)
        if wt:
            sh("git -C /repo worktree remove --force %s" % wt)
    dj = os.path.join(d, "detect.json")
    old = json.load(open(dj)) if os.path.exists(dj) else {}
    old[tier] = res
    json.dump(old, open(dj, "w"), indent=1)
    # restore evidence of the unchanged tree is the caller's job (re-run the check)
    return 0


if __name__ == "__main__":
    a = sys.argv[1:]
    if a and a[0] == "import":
        sys.exit(do_import(a[1], a[2], a[3]))
    if a and a[0] == "eval":
        tier = "quick"
        props = None
        if "--tier" in a:
            tier = a[a.index("--tier") + 1]
        if "--props" in a:
            props = a[a.index("--props") + 1].split(",")
        only = a[a.index("--only") + 1] if "--only" in a else None
        sys.exit(do_eval(a[1], tier, props, "--scratch" in a, only))
    print(__doc__)
