#!/usr/bin/env python3
"""
Driver for the solver-based checks of becm/mpt-base.

  build (goto-cc, real /repo sources)  ->  function-pointer restriction
  -> cbmc (bounded symbolic execution + SAT/SMT)  ->  parse verdicts
  -> witness twins (vacuity guard)  ->  native replay of counterexamples
  -> known-finding bookkeeping  ->  evidence/<id>.json

Exit codes of a property check: 0 = all queries UNSAT (or only listed known
findings) and every witness SAT; 1 = replayed violation; 2 = check unusable.
"""
import argparse
import concurrent.futures as cf
import importlib.util
import json
import os
import re
import resource
import shutil
import signal
import subprocess
import sys
import tempfile
import threading
import time

VERIF = os.path.dirname(os.path.dirname(os.path.abspath(__file__)))
REPO = os.environ.get("VERIF_REPO", "/repo")
GUARD = "BECM_MPT_BASE_VERIF"

INCLUDES = ["mptcore", "mptio", "mptplot", "mptloader", "."]

BASE_FLAGS = [
    "--unwinding-assertions", "--slice-formula", "--drop-unused-functions",
    "--pointer-overflow-check", "--signed-overflow-check",
    "--undefined-shift-check", "--no-malloc-may-fail", "--object-bits", "12",
]
# accepted but never used: conversion checks flag benign implicit narrowing in
# harness casts and cannot be replayed natively (gcc has no such sanitizer)

print_lock = threading.Lock()


def say(*a):
    with print_lock:
        print(*a, flush=True)


class Q:
    """One solver query family: harness + units + bounds."""

    def __init__(self, name, harness, units=(), defines=None, unwind=None,
                 unwind_default=None, fp=(), fp_default=None, flags=(),
                 timeout=None, mem_gb=None, witness=("",), regions=(),
                 stubs=("libc.c",), func="harness", bounds="", outside="",
                 harness_defines=None, extra_sources=(), no_main=False,
                 backend=None, replay_units=None, replay=True, cxx=None,
                 weight=1):
        self.name = name
        self.harness = harness            # path relative to /verif/harness
        self.units = list(units)          # repo-relative paths or (path, {defs})
        self.defines = dict(defines or {})            # for every TU
        self.harness_defines = dict(harness_defines or {})  # harness TU only
        self.unwind = dict(unwind or {})  # loop id -> bound
        self.unwind_default = unwind_default
        self.fp = list(fp)                # (regex on "func: callexpr", [targets])
        self.fp_default = fp_default
        self.flags = list(flags)
        self.timeout = timeout
        self.mem_gb = mem_gb
        self.witness = list(witness)      # "" = plain end witness; else region name
        self.regions = list(regions)      # known-finding regions referenced
        self.stubs = list(stubs)
        self.func = func
        self.bounds = bounds
        self.outside = outside
        self.extra_sources = list(extra_sources)   # generated C (abs path) or verif-relative
        self.no_main = no_main
        self.backend = backend
        self.replay_units = replay_units
        self.replay = replay
        self.cxx = cxx
        self.weight = weight              # parallel slots consumed (memory heavy queries)


# --------------------------------------------------------------------------
# process helpers


def run_capped(cmd, timeout, mem_gb, cwd=None, env=None, stdout_path=None):
    """Run cmd with wall-clock and address-space caps.
    Returns (rc, stdout_bytes or None, stderr_bytes, wall_s, maxrss_kb, timed_out)."""
    def pre():
        os.setsid()
        if mem_gb:
            lim = int(mem_gb * (1 << 30))
            resource.setrlimit(resource.RLIMIT_AS, (lim, lim))
    t0 = time.time()
    out_f = open(stdout_path, "wb") if stdout_path else subprocess.PIPE
    p = subprocess.Popen(cmd, stdout=out_f, stderr=subprocess.PIPE, cwd=cwd,
                         env=env, preexec_fn=pre)
    timed = {"v": False}

    def kill():
        timed["v"] = True
        try:
            os.killpg(p.pid, signal.SIGKILL)
        except ProcessLookupError:
            pass
    timer = threading.Timer(timeout, kill) if timeout else None
    if timer:
        timer.start()
    try:
        out, err = p.communicate()
    finally:
        if timer:
            timer.cancel()
        if stdout_path:
            out_f.close()
    wall = time.time() - t0
    # per-child rusage is not available through communicate(); use /proc-free
    # approximation: RUSAGE_CHILDREN maximum (monotone; good enough as a cap log)
    rss = resource.getrusage(resource.RUSAGE_CHILDREN).ru_maxrss
    return p.returncode, out, err, wall, rss, timed["v"]


def sh(cmd, **kw):
    return subprocess.run(cmd, stdout=subprocess.PIPE, stderr=subprocess.STDOUT,
                          **kw)


# --------------------------------------------------------------------------
# build


def inc_flags():
    fl = []
    for d in INCLUDES:
        fl += ["-I", os.path.join(REPO, d)]
    fl += ["-I", os.path.join(VERIF, "include"), "-I", os.path.join(VERIF, "harness")]
    return fl


def dflags(d):
    out = []
    for k, v in d.items():
        out.append("-D%s" % k if v is None else "-D%s=%s" % (k, v))
    return out


class BuildError(Exception):
    pass


def build_goto(q, wd, extra_defs):
    """Compile harness + units + stubs with goto-cc; returns path of binary."""
    objs = []
    common = ["-D__NO_CTYPE", "-D" + GUARD] + dflags(q.defines) + inc_flags()
    srcs = []
    hdefs = dict(q.harness_defines)
    hdefs.update(extra_defs)
    srcs.append((os.path.join(VERIF, "harness", q.harness), hdefs))
    for u in q.units:
        if isinstance(u, (tuple, list)):
            srcs.append((os.path.join(REPO, u[0]), u[1]))
        else:
            srcs.append((os.path.join(REPO, u), {}))
    for s in q.stubs:
        srcs.append((os.path.join(VERIF, "include", "stubs", s), {}))
    for s in q.extra_sources:
        p = s if os.path.isabs(s) else os.path.join(VERIF, s)
        srcs.append((p, hdefs))
    for i, (src, defs) in enumerate(srcs):
        if not os.path.exists(src):
            raise BuildError("missing source %s" % src)
        o = os.path.join(wd, "u%d.o" % i)
        cmd = ["goto-cc", "-c", "-o", o, src] + common + dflags(defs)
        r = sh(cmd)
        if r.returncode != 0:
            raise BuildError("goto-cc failed for %s:\n%s" % (src, r.stdout.decode(errors="replace")[-3000:]))
        objs.append(o)
    out = os.path.join(wd, "a.gb")
    r = sh(["goto-cc", "-o", out] + objs)
    if r.returncode != 0:
        raise BuildError("goto-cc link failed:\n%s" % r.stdout.decode(errors="replace")[-3000:])
    return out


CALL_RE = re.compile(r"^\s*CALL\s+(?:.*?:=\s*)?(\*.*)$")
FUNC_RE = re.compile(r"^(\S+) /\* (\S+) \*/$")


def fp_sites(gb):
    """List indirect call sites as (function, n, expr) from goto-instrument."""
    r = subprocess.run(["goto-instrument", "--show-goto-functions", gb],
                       stdout=subprocess.PIPE, stderr=subprocess.DEVNULL)
    sites = []
    cur = None
    n = 0
    funcs = set()
    for line in r.stdout.decode(errors="replace").splitlines():
        m = FUNC_RE.match(line)
        if m:
            cur = m.group(2)
            funcs.add(cur)
            n = 0
            continue
        m = CALL_RE.match(line)
        if m and cur:
            n += 1
            sites.append((cur, n, m.group(1).strip()))
    return sites, funcs


def expand_unwind(q, gb):
    """unwind keys may be 'func' (all loops of that function) or 'func.N'."""
    if not any("." not in k for k in q.unwind):
        return dict(q.unwind)
    r = subprocess.run(["goto-instrument", "--show-loops", gb], stdout=subprocess.PIPE, stderr=subprocess.DEVNULL)
    loops = re.findall(r"^Loop (\S+):", r.stdout.decode(errors="replace"), re.M)
    out = {}
    for k, v in q.unwind.items():
        if "." in k:
            out[k] = v
    for lp in loops:
        fn = lp.rsplit(".", 1)[0]
        if fn in q.unwind and lp not in out:
            out[lp] = q.unwind[fn]
    return out


def restrict_fp(q, gb, wd):
    """Apply function-pointer restrictions.  Returns (new_gb, table)."""
    sites, funcs = fp_sites(gb)
    table = []
    restr = {}
    for (fn, n, expr) in sites:
        key = "%s: %s" % (fn, expr)
        targets = None
        for (rx, tg) in q.fp:
            if re.search(rx, key):
                targets = tg
                break
        if targets is None:
            targets = q.fp_default
        if targets is not None:
            targets = [t for t in targets if t in funcs] or None
        label = "%s.function_pointer_call.%d" % (fn, n)
        table.append({"site": label, "expr": expr, "targets": targets})
        if targets is not None:
            restr[label] = list(targets)
    if not restr:
        return gb, table
    rf = os.path.join(wd, "fp.json")
    with open(rf, "w") as f:
        json.dump(restr, f)
    out = os.path.join(wd, "b.gb")
    r = sh(["goto-instrument", "--function-pointer-restrictions-file", rf, gb, out])
    if r.returncode != 0:
        raise BuildError("fp restriction failed:\n%s" % r.stdout.decode(errors="replace")[-3000:])
    return out, table


# --------------------------------------------------------------------------
# cbmc


def parse_cbmc_json(path):
    try:
        with open(path, "rb") as f:
            raw = f.read()
        data = json.loads(raw.decode(errors="replace"))
    except Exception as e:  # truncated output (killed)
        return None, "unparsable cbmc output: %s" % e
    res = {"results": [], "errors": [], "symex_s": None, "solver_s": None,
           "prover": None, "vccs": None, "steps": None}
    for e in data:
        if not isinstance(e, dict):
            continue
        if e.get("messageType") == "ERROR":
            res["errors"].append(e.get("messageText", ""))
        mt = e.get("messageText", "")
        if mt:
            m = re.search(r"Runtime Symex: ([0-9.e+-]+)s", mt)
            if m:
                res["symex_s"] = float(m.group(1))
            m = re.search(r"Runtime Solver: ([0-9.e+-]+)s", mt)
            if m:
                res["solver_s"] = (res["solver_s"] or 0) + float(m.group(1))
            m = re.search(r"size of program expression: (\d+) steps", mt)
            if m:
                res["steps"] = int(m.group(1))
            m = re.search(r"Generated (\d+) VCC\(s\), (\d+) remaining", mt)
            if m:
                res["vccs"] = [int(m.group(1)), int(m.group(2))]
        if "result" in e:
            res["results"] = e["result"]
        if "property" in e and "status" in e and "result" not in e:
            # --stop-on-fail form: one top-level failed property with its trace
            x = dict(e)
            x["status"] = "FAILURE" if str(e["status"]).lower().startswith("fail") else e["status"]
            res["results"].append(x)
        if "cProverStatus" in e:
            res["prover"] = e["cProverStatus"]
    return res, None


def trace_inputs(trace):
    """Extract harness inputs from a trace: list of (index, value, name guess)."""
    ins = {}
    order = []
    pending = None
    for s in trace:
        if s.get("stepType") != "assignment":
            continue
        loc = s.get("sourceLocation", {}) or {}
        fn = loc.get("function")
        lhs = s.get("lhs", "")
        m = re.match(r"V_LOG\[(\d+)[a-zA-Z]*\]$", lhs)
        if m and fn == "v_in_raw":
            val = s.get("value", {})
            b = val.get("binary")
            if b is not None:
                v = int(b, 2)
            else:
                d = re.sub(r"[uUlL]+$", "", str(val.get("data", "0")))
                v = int(d, 0)
            k = int(m.group(1))
            if k not in ins:
                order.append(k)
            pending = [k, v, None]
            ins[k] = pending
            continue
        if pending is not None and fn not in ("v_in_raw", "v_in_range", "v_in_i8", "v_in_i16", "v_in_i32",
                                               "v_in_i64", "v_in_double", "v_in_float") and pending[2] is None:
            if lhs.startswith("return_value") or lhs.startswith("goto_symex") or "$tmp" in lhs or lhs in ("v", "k"):
                continue
            pending[2] = lhs
    return [tuple(ins[k]) for k in sorted(order)]


PORTFOLIO = [("minisat", []), ("cadical", ["--sat-solver", "cadical"])]


def run_cbmc(q, gb, wd, tag, witness, tier_caps, want_trace, prop_name=None):
    """Run one cbmc query; the main (UNSAT) query runs a small back-end portfolio
    in parallel and takes the first conclusive answer."""
    ux = expand_unwind(q, gb)
    timeout = q.timeout or tier_caps["timeout"]
    mem = q.mem_gb or tier_caps["mem_gb"]
    cmd = ["cbmc", gb, "--function", q.func, "--json-ui", "--verbosity", "8"]
    if witness:
        cmd += ["--slice-formula", "--drop-unused-functions", "--no-malloc-may-fail", "--object-bits", "12",
                "--no-standard-checks", "--stop-on-fail", "--trace"]
    else:
        cmd += BASE_FLAGS
        if want_trace:
            cmd += ["--trace", "--stop-on-fail"]
        if prop_name:
            cmd += ["--property", prop_name]
    us = ",".join("%s:%d" % (k, v) for k, v in ux.items())
    if us:
        cmd += ["--unwindset", us]
    if q.unwind_default:
        cmd += ["--unwind", str(q.unwind_default)]
    flags = list(q.flags)
    if witness:
        flags = [f for f in flags if f not in ("--memory-leak-check", "--conversion-check",
                                               "--float-overflow-check", "--nan-check",
                                               "--pointer-primitive-check")]
    cmd += flags
    if q.backend is not None:
        variants = [("fixed", list(q.backend))]
    elif os.environ.get("VERIF_NO_PORTFOLIO"):
        variants = [PORTFOLIO[0]]
    else:
        variants = PORTFOLIO
    procs = []
    t0 = time.time()

    def pre():
        os.setsid()
        if mem:
            lim = int(mem * (1 << 30))
            resource.setrlimit(resource.RLIMIT_AS, (lim, lim))
    for (bn, bflags) in variants:
        outp = os.path.join(wd, "out_%s_%s.json" % (tag, bn))
        rssf = os.path.join(wd, "rss_%s_%s.txt" % (tag, bn))
        of = open(outp, "wb")
        p = subprocess.Popen(["/usr/bin/time", "-o", rssf, "-f", "%M"] + cmd + bflags, stdout=of,
                             stderr=subprocess.PIPE, cwd=wd, preexec_fn=pre)
        procs.append({"name": bn, "p": p, "out": outp, "rss": rssf, "of": of, "done": False, "flags": bflags})

    def killall():
        for pr in procs:
            if pr["p"].poll() is None:
                try:
                    os.killpg(pr["p"].pid, signal.SIGKILL)
                except ProcessLookupError:
                    pass
        for pr in procs:
            try:
                pr["p"].wait(timeout=5)
            except Exception:
                pass
            pr["of"].close()

    best = None
    try:
        while True:
            allfin = True
            for pr in procs:
                if pr["done"]:
                    continue
                rc = pr["p"].poll()
                if rc is None:
                    allfin = False
                    continue
                pr["done"] = True
                pr["of"].flush()
                err = pr["p"].stderr.read() if pr["p"].stderr else b""
                r = interpret(pr, rc, err, cmd + pr["flags"], time.time() - t0, mem)
                if r["status"] in ("PASSED", "FAILED"):
                    best = r
                    break
                if best is None or best["status"] == "INCONCLUSIVE":
                    best = r
            if best is not None and best["status"] in ("PASSED", "FAILED"):
                break
            if allfin:
                break
            if time.time() - t0 > timeout:
                best = {"cmd": " ".join(cmd[2:]), "wall_s": round(time.time() - t0, 2), "rss_kb": None,
                        "timed_out": True, "rc": None, "status": "INCONCLUSIVE",
                        "why": "timeout %ss (back ends: %s)" % (timeout, ",".join(v[0] for v in variants))}
                break
            time.sleep(0.05)
    finally:
        killall()
    best["wall_s"] = round(time.time() - t0, 2)
    return best


def interpret(pr, rc, err, cmd, wall, mem):
    try:
        rss = int(open(pr["rss"]).read().split()[-1])
    except Exception:
        rss = None
    r = {"cmd": " ".join(cmd[2:]), "wall_s": round(wall, 2), "rss_kb": rss,
         "timed_out": False, "rc": rc, "backend": pr["name"]}
    parsed, perr = parse_cbmc_json(pr["out"])
    if parsed is None:
        r["status"] = "INCONCLUSIVE"
        r["why"] = "%s (rc=%s; likely memory cap %s GB) %s" % (perr, rc, mem, err.decode(errors="replace")[-300:])
        return r
    r["symex_s"] = parsed["symex_s"]
    r["solver_s"] = parsed["solver_s"]
    r["vccs"] = parsed["vccs"]
    r["steps"] = parsed["steps"]
    results = parsed["results"]
    if parsed["errors"] and not results:
        msg = "; ".join(parsed["errors"])[:600]
        if "out of memory" in msg.lower() or "bad_alloc" in msg.lower():
            r["status"] = "INCONCLUSIVE"
            r["why"] = "out of memory: " + msg
        else:
            r["status"] = "ERROR"
            r["why"] = msg
        return r
    if not results and rc not in (0, 10):
        r["status"] = "INCONCLUSIVE" if rc in (-9, 137, 134, -6, 6, 9) else "ERROR"
        r["why"] = "cbmc rc=%s %s" % (rc, err.decode(errors="replace")[-400:])
        return r
    failed = [x for x in results if x.get("status") == "FAILURE"]
    r["checks_total"] = len(results)
    r["checks_failed"] = len(failed)
    r["functions"] = sorted({x["property"].rsplit(".", 2)[0] for x in results if "property" in x})
    nobody = [x for x in results if "no body for" in x.get("description", "")]
    r["failed"] = [{"property": x.get("property"), "description": x.get("description"),
                    "loc": "%s:%s" % ((x.get("sourceLocation") or {}).get("file", "?"),
                                      (x.get("sourceLocation") or {}).get("line", "?"))}
                   for x in failed[:40]]
    if nobody and any(x.get("status") == "FAILURE" for x in nobody):
        r["status"] = "ERROR"
        r["why"] = "missing function body: " + "; ".join(sorted({x["description"] for x in nobody}))
        return r
    unw = [x for x in failed if "unwinding assertion" in (x.get("description") or "")]
    if unw and len(unw) == len(failed):
        r["status"] = "ERROR"
        r["why"] = "unwind bound too small (harness incomplete): " + ", ".join(sorted({x.get("property", "?") for x in unw}))
        return r
    if unw:
        # a loop ran past its bound AND other checks failed: the other failures are real paths inside the
        # bound (CBMC cuts paths behind a failed unwinding assertion); report those, keep the note
        r["unwind_exceeded"] = sorted({x.get("property", "?") for x in unw})
        failed = [x for x in failed if x not in unw]
        r["failed"] = [f for f in r["failed"] if "unwinding assertion" not in (f.get("description") or "")]
    undecided = [x for x in results if x.get("status") not in ("SUCCESS", "FAILURE")]
    if undecided and not failed:
        r["status"] = "INCONCLUSIVE"
        r["why"] = "%d of %d checks undecided by the solver (status %s; memory cap %s GB)" % (
            len(undecided), len(results), ",".join(sorted({str(x.get("status")) for x in undecided})), mem)
        return r
    if failed:
        r["status"] = "FAILED"
        for x in failed:
            if x.get("trace"):
                r["inputs"] = trace_inputs(x["trace"])
                r["trace_property"] = x.get("property")
                r["trace_description"] = x.get("description")
                break
    else:
        r["status"] = "PASSED"
    return r


# --------------------------------------------------------------------------
# native replay


def build_native(q, wd, extra_defs):
    exe = os.path.join(wd, "replay.exe")
    srcs = [os.path.join(VERIF, "harness", q.harness)]
    units = q.replay_units if q.replay_units is not None else q.units
    per = []
    for u in units:
        if isinstance(u, (tuple, list)):
            per.append((os.path.join(REPO, u[0]), u[1]))
        else:
            per.append((os.path.join(REPO, u), {}))
    for s in q.stubs:
        if s in ("libc.c", "libc_loops.c", "malloc_pages.c", "realloc_small.c"):
            continue
        per.append((os.path.join(VERIF, "include", "stubs", s), {}))
    for s in q.extra_sources:
        p = s if os.path.isabs(s) else os.path.join(VERIF, s)
        per.append((p, {}))
    cflags = ["-O0", "-g", "-fsanitize=address,undefined", "-fno-omit-frame-pointer",
              "-fno-sanitize-recover=undefined", "-w", "-DVERIF_REPLAY", "-D" + GUARD] + dflags(q.defines) + inc_flags()
    hdefs = dict(q.harness_defines)
    hdefs.update(extra_defs)
    objs = []
    allsrc = [(srcs[0], hdefs)] + per
    for i, (src, defs) in enumerate(allsrc):
        o = os.path.join(wd, "n%d.o" % i)
        r = sh(["gcc", "-c", "-o", o, src] + cflags + dflags(defs))
        if r.returncode != 0:
            raise BuildError("gcc failed for %s:\n%s" % (src, r.stdout.decode(errors="replace")[-3000:]))
        objs.append(o)
    main_c = os.path.join(wd, "main.c")
    with open(main_c, "w") as f:
        f.write("extern void %s(void);\nint main(void){ %s(); return 0; }\n" % (q.func, q.func))
    r = sh(["gcc", "-o", exe, main_c] + objs + ["-fsanitize=address,undefined", "-lm"])
    if r.returncode != 0:
        raise BuildError("native link failed:\n%s" % r.stdout.decode(errors="replace")[-3000:])
    return exe


def native_replay(q, wd, extra_defs, replay_file):
    """Returns (reproduced: bool|None, text).  None = could not build/run."""
    try:
        exe = build_native(q, wd, extra_defs)
    except BuildError as e:
        return None, str(e)
    env = dict(os.environ)
    env["VERIF_REPLAY_FILE"] = replay_file
    env["ASAN_OPTIONS"] = "detect_leaks=1:abort_on_error=0:exitcode=99"
    env["UBSAN_OPTIONS"] = "print_stacktrace=1:halt_on_error=1:exitcode=98"
    try:
        r = subprocess.run([exe], stdout=subprocess.PIPE, stderr=subprocess.STDOUT,
                           env=env, timeout=60)
    except subprocess.TimeoutExpired:
        return True, "native run did not terminate within 60 s"
    txt = r.stdout.decode(errors="replace")
    if r.returncode == 0:
        return False, "native run passed (exit 0)\n" + txt[-1500:]
    if r.returncode == 77:
        return False, "native run rejected the inputs (assumption)\n" + txt[-1500:]
    if r.returncode in (3, 4):
        return False, "native run diverged from the trace\n" + txt[-1500:]
    return True, "native exit %d\n%s" % (r.returncode, txt[-2500:])


CURRENT_TIER = {"v": "quick"}


def write_replay_file(prop, q, tag, extra_defs, inputs, why):
    d = os.path.join(os.environ.get("VERIF_REPLAY_DIR") or os.path.join(VERIF, "replays"), prop)
    os.makedirs(d, exist_ok=True)
    p = os.path.join(d, "%s.%s.in" % (q.name, tag))
    with open(p, "w") as f:
        f.write("# property=%s query=%s\n" % (prop, q.name))
        f.write("# tier=%s\n" % CURRENT_TIER["v"])
        f.write("# defines=%s\n" % json.dumps(extra_defs))
        f.write("# failing=%s\n" % (why or "").replace("\n", " ")[:300])
        for (k, v, n) in inputs:
            f.write("%d %d # %s\n" % (k, v, n or "?"))
    return p


# --------------------------------------------------------------------------
# known findings


def load_known():
    p = os.path.join(VERIF, "known_findings.json")
    if not os.path.exists(p):
        return []
    with open(p) as f:
        return json.load(f).get("findings", [])


# --------------------------------------------------------------------------
# one job = one cbmc run of one query variant


def job(prop, q, variant, tier_caps, known_regions):
    """variant: ("main",) | ("witness", region) | ("kf", region)"""
    kind = variant[0]
    wd = tempfile.mkdtemp(prefix="verif-%s-%s-" % (prop, q.name))
    t0 = time.time()
    res = {"query": q.name, "variant": ":".join(variant), "harness": q.harness}
    try:
        defs = {}
        for rg in q.regions:
            mode = 0
            if rg in known_regions:
                mode = 1
            if kind == "kf" and variant[1] == rg:
                mode = 2
            defs["KF_" + rg] = mode
        if kind == "witness":
            defs["WITNESS"] = 1
            if variant[1]:
                defs["WITNESS_" + variant[1]] = 1
        try:
            if q.cxx:
                defs.update(q.cxx(q, wd) or {})
            gb = build_goto(q, wd, defs)
            gb, table = restrict_fp(q, gb, wd)
            res["fp_restrictions"] = table
        except BuildError as e:
            res.update(status="ERROR", why=str(e))
            return res
        r = run_cbmc(q, gb, wd, "1", kind == "witness", tier_caps, False)
        res.update(r)
        res["defs"] = defs
        if kind == "witness" and r["status"] == "FAILED" and r.get("inputs") is not None and q.replay \
                and not os.environ.get("VERIF_NO_WITNESS_REPLAY"):
            # validate the witness trace against the implementation: the same inputs must drive the
            # native build (real units, real libc, ASan/UBSan) to the end of the harness
            wp = os.path.join(wd, "witness.in")
            with open(wp, "w") as f:
                for (k, v, n) in r["inputs"]:
                    f.write("%d %d # %s\n" % (k, v, n or "?"))
            try:
                exe = build_native(q, wd, defs)
                env = dict(os.environ)
                env["VERIF_REPLAY_FILE"] = wp
                env["ASAN_OPTIONS"] = "detect_leaks=0:exitcode=99"
                pr = subprocess.run([exe], stdout=subprocess.PIPE, stderr=subprocess.STDOUT, env=env, timeout=60)
                res["witness_native_rc"] = pr.returncode
            except Exception as e:  # noqa
                res["witness_native_rc"] = "error: %s" % str(e)[:200]
        if r["status"] == "FAILED" and kind != "witness":
            descs = [(f["property"], f["description"] or "") for f in r.get("failed", [])]
            if descs and all(UB_ONLY_PAT.search(d) for (_, d) in descs):
                res["status"] = "PASSED_UB"
                return res

            def prio(pd):
                p, d = pd
                if UB_ONLY_PAT.search(d):
                    return 9
                if ".assertion." in (p or "") and not p.startswith("v_in_raw"):
                    return 0
                if "dereference failure" in d or "bounds" in d or "free" in d or "leak" in d:
                    return 1
                return 2
            cands = sorted(descs, key=prio)
            tried = 0
            res["replayed"] = None
            for (pn, pd) in cands:
                if prio((pn, pd)) == 9 or tried >= 3:
                    break
                tried += 1
                r2 = run_cbmc(q, gb, wd, "t%d" % tried, False, tier_caps, True, prop_name=pn)
                res["wall_s"] = res.get("wall_s", 0) + r2.get("wall_s", 0)
                if r2["status"] != "FAILED" or "inputs" not in r2:
                    continue
                tag = ("main" if kind == "main" else "kf-" + variant[1]) + (".%d" % tried if tried > 1 else "")
                rp = write_replay_file(prop, q, tag, defs, r2["inputs"], "%s: %s" % (pn, pd))
                res["inputs"] = r2["inputs"]
                res["replay_file"] = rp
                res["trace_property"] = pn
                res["trace_description"] = pd
                if not q.replay:
                    break
                ok, txt = native_replay(q, wd, defs, rp)
                res["replayed"] = ok
                res["replay_log"] = txt
                if ok:
                    break
        return res
    except Exception as e:  # noqa
        import traceback
        res.update(status="ERROR", why="driver exception: %s\n%s" % (e, traceback.format_exc()))
        return res
    finally:
        res["job_wall_s"] = round(time.time() - t0, 2)
        if os.environ.get("VERIF_KEEP"):
            say("  kept " + wd)
        else:
            shutil.rmtree(wd, ignore_errors=True)


# --------------------------------------------------------------------------
# property driver

TIERS = {
    "quick": {"timeout": 240, "mem_gb": 8, "workers": 8},
    "thorough": {"timeout": 1500, "mem_gb": 14, "workers": 6},
}


# function-pointer roles of the buffer vtable (array units)
BUF_FP = [
    (r"_vptr\)\.detach\)", ["_mpt_buffer_alloc_detach", "h_buf_detach"]),
    (r"_vptr\)\.get_flags\)", ["_mpt_buffer_alloc_flags", "h_buf_flags"]),
    (r"_vptr\)\.unref\)", ["_mpt_buffer_alloc_unref", "h_buf_unref"]),
    (r"_vptr\)\.addref\)", ["_mpt_buffer_alloc_ref", "h_buf_addref"]),
    (r"\bfini\b|\.fini\)", ["h_fini"]),
    (r"\binit\b|\.init\)", ["h_init"]),
]
ARRAY_UNITS = ["mptcore/array/%s.c" % f for f in (
    "buffer_alloc array_append array_insert array_set array_slice array_reserve array_clone "
    "array_reduce buffer_insert buffer_cut buffer_set").split()] + ["mptcore/misc/refcount.c"]


def load_prop(prop):
    p = os.path.join(VERIF, "props", prop + ".py")
    spec = importlib.util.spec_from_file_location("prop_" + prop, p)
    mod = importlib.util.module_from_spec(spec)
    mod.Q = Q
    mod.REPO = REPO
    mod.VERIF = VERIF
    mod.BUF_FP = BUF_FP
    mod.ARRAY_UNITS = ARRAY_UNITS
    spec.loader.exec_module(mod)
    return mod


UB_ONLY_PAT = re.compile(r"pointer (arithmetic|relation)|pointer_arithmetic|pointer_primitives")


def check_property(prop, tier, only=None, keep=False):
    t0 = time.time()
    CURRENT_TIER["v"] = tier
    seed = int(os.environ.get("VERIF_SEED", "0") or 0)
    mod = load_prop(prop)
    queries = mod.queries(tier)
    if only:
        queries = [q for q in queries if re.search(only, q.name)]
    caps = dict(TIERS[tier])
    known = [k for k in load_known() if k.get("property") == prop]
    known_regions = {k["region"]: k for k in known if k.get("status") == "known"}
    fixed_regions = {k["region"]: k for k in known if k.get("status") == "fixed" and k.get("region")}
    jobs = []
    for q in queries:
        if not q.no_main:     # no_main: the query's whole (concrete) case lies inside a known-finding region; only the twin runs
            jobs.append((q, ("main",)))
            for w in q.witness:
                jobs.append((q, ("witness", w)))
        for rg in q.regions:
            if rg in known_regions:
                jobs.append((q, ("kf", rg)))
    results = []
    workers = int(os.environ.get("VERIF_JOBS", caps["workers"]))
    sem = threading.Semaphore(workers)

    def run(qv):
        q, v = qv
        for _ in range(min(q.weight, workers)):
            sem.acquire()
        try:
            r = job(prop, q, v, caps, known_regions)
        finally:
            for _ in range(min(q.weight, workers)):
                sem.release()
        say("  [%s] %-34s %-22s %-12s %6.1fs %s" % (
            prop, q.name, ":".join(v), r.get("status"), r.get("job_wall_s", 0),
            (r.get("why") or "")[:160].replace("\n", " ")))
        return r

    with cf.ThreadPoolExecutor(max_workers=max(workers * 2, 4)) as ex:
        results = list(ex.map(run, jobs))

    # ---- verdict
    violations = []
    unusable = []
    inconclusive = []
    kf_lines = []
    passed_main = set()
    witness_ok = {}
    samples = []
    ub_only = []
    by_q = {q.name: q for q in queries}
    for r in results:
        kind = r["variant"].split(":")[0]
        st = r.get("status")
        qn = r["query"]
        if kind == "witness":
            if st == "FAILED":
                witness_ok.setdefault(qn, []).append(True)
                if r.get("inputs") is not None and len(samples) < 40:
                    samples.append({"query": qn, "variant": r["variant"],
                                    "witness_inputs": [[n or "?", v] for (k, v, n) in r["inputs"][:48]]})
            elif st == "PASSED":
                witness_ok.setdefault(qn, []).append(False)
                unusable.append("%s %s: witness not reachable (vacuous harness)" % (qn, r["variant"]))
            elif st == "INCONCLUSIVE":
                witness_ok.setdefault(qn, []).append(None)
                inconclusive.append("%s %s: %s" % (qn, r["variant"], r.get("why")))
            else:
                unusable.append("%s %s: %s" % (qn, r["variant"], r.get("why")))
        elif kind == "main":
            if st == "PASSED":
                passed_main.add(qn)
            elif st == "PASSED_UB":
                ub_only.append({"query": qn, "failed": r.get("failed")})
                if getattr(mod, "UB_IS_VIOLATION", False):
                    violations.append(r)
                else:
                    passed_main.add(qn)
            elif st == "INCONCLUSIVE":
                inconclusive.append("%s: %s" % (qn, r.get("why")))
            elif st == "FAILED":
                descs = [f["description"] or "" for f in r.get("failed", [])]
                if r.get("replayed") is True:
                    violations.append(r)
                elif by_q[qn].replay is False:
                    violations.append(r)
                else:
                    only_ub = descs and all(UB_ONLY_PAT.search(d) for d in descs)
                    if only_ub:
                        ub_only.append({"query": qn, "failed": r.get("failed")})
                        if getattr(mod, "UB_IS_VIOLATION", False):
                            violations.append(r)
                    else:
                        unusable.append("%s: counterexample did not reproduce natively (%s): %s | %s" % (
                            qn, "; ".join(descs[:3]), (r.get("replay_log") or "")[:300].replace("\n", " "),
                            r.get("replay_file")))
            else:
                unusable.append("%s: %s" % (qn, r.get("why")))
        elif kind == "kf":
            rg = r["variant"].split(":")[1]
            k = known_regions[rg]
            if st in ("FAILED", "PASSED_UB") and (st == "FAILED" or False):
                kf_lines.append("KNOWN-FINDING: property=%s %s %s" % (prop, k["id"], k["what"]))
            elif st == "PASSED_UB":
                kf_lines.append("KNOWN-FINDING-STALE: property=%s %s no longer fails inside its region" % (prop, k["id"]))
            elif st == "PASSED":
                kf_lines.append("KNOWN-FINDING-STALE: property=%s %s no longer fails inside its region" % (prop, k["id"]))
            elif st == "INCONCLUSIVE":
                inconclusive.append("%s %s: %s" % (qn, r["variant"], r.get("why")))
            else:
                unusable.append("%s %s: %s" % (qn, r["variant"], r.get("why")))

    # a finding is demonstrated when any twin fails inside its region; twins of queries that cannot
    # reach the region pass vacuously and say nothing; STALE only when no twin fails
    shown = {l.split()[2] for l in kf_lines if l.startswith("KNOWN-FINDING:")}
    kf_lines = [l for l in kf_lines if not (l.startswith("KNOWN-FINDING-STALE:") and l.split()[2] in shown)]
    for l in sorted(set(kf_lines)):
        say(l)
    for v in violations:
        say("VIOLATION property=%s replay=%s" % (prop, v.get("replay_file", "-")))
        say("  query=%s failing=%s" % (v["query"], "; ".join("%s (%s)" % (f["description"], f["loc"]) for f in v.get("failed", [])[:4])))
    for u in unusable:
        say("UNUSABLE: %s" % u)
    for i in inconclusive:
        say("INCONCLUSIVE: %s" % i)

    nontrivial = [qn for qn in passed_main if witness_ok.get(qn) and all(x is True for x in witness_ok[qn])]
    main_results = [r for r in results if r["variant"] == "main"]
    funcs = sorted({f for r in main_results for f in r.get("functions", [])})
    if not samples:
        samples = [{"note": "no witness counterexample available"}]
    for v in violations:
        samples.append({"query": v["query"], "violation_inputs": [[n or "?", x] for (k, x, n) in (v.get("inputs") or [])[:64]],
                        "failed": v.get("failed", [])[:5]})
    ev = {
        "property_id": prop,
        "tier": tier,
        "seed": seed,
        "level": "model_checking",
        "coverage": {
            "evaluations": len(results),
            "distinct_nontrivial": len(nontrivial),
            "states": max(1, sum((r.get("steps") or 0) for r in results)),
            "transitions": max(1, sum(((r.get("vccs") or [0])[0]) for r in results)),
            "traces_validated_against_impl": sum(1 for r in results if r.get("witness_native_rc") == 0)
                                             + sum(1 for r in results if r.get("replayed") is True),
            "states_transitions_meaning": "states = symbolic-execution steps (SSA program size reported by CBMC) summed over all runs; "
                                          "transitions = verification conditions generated; traces_validated_against_impl = counterexample traces "
                                          "(witness reachability traces and violations) whose inputs were replayed on the native ASan/UBSan build of the "
                                          "same real units and behaved as the solver said (witness: ran to the harness end with every oracle assertion holding)",
            "rule": "one evaluation = one CBMC run (main query, witness twin or known-finding twin) over the real /repo units; "
                    "a query counts as distinct non-trivial iff its main run returned UNSAT for every assertion, bounds/pointer check "
                    "and unwinding assertion AND all of its witness twins returned SAT (end state reachable, assumptions consistent)",
            "samples": samples,
            "exhaustive": False,
            "functions_encoded": funcs,
            "queries": [{k: r.get(k) for k in ("query", "variant", "harness", "status", "why", "witness_native_rc", "steps", "checks_total",
                                                 "checks_failed", "symex_s", "solver_s", "wall_s", "rss_kb",
                                                 "vccs", "backend", "cmd", "defs", "failed", "replay_file", "replayed")}
                        for r in results],
            "bounds": {q.name: {"unwindset": q.unwind, "unwind_default": q.unwind_default, "stated": q.bounds,
                                "units": [u if isinstance(u, str) else u[0] for u in q.units],
                                "stubs": q.stubs, "outside": q.outside} for q in queries},
            "fp_restrictions": {r["query"]: r.get("fp_restrictions") for r in main_results if r.get("fp_restrictions")},
            "inconclusive": inconclusive,
            "unusable": unusable,
            "known_findings": sorted(set(kf_lines)),
            "ub_only": ub_only,
            "solver_time_s": round(sum((r.get("solver_s") or 0) for r in results), 2),
            "symex_time_s": round(sum((r.get("symex_s") or 0) for r in results), 2),
        },
        "assumptions": getattr(mod, "ASSUMPTIONS", []) + [
            "allocation never fails (--no-malloc-may-fail)",
            "character classes are those of the C locale (-D__NO_CTYPE, CBMC's ctype models)",
            "CBMC 6.11 models of memcpy/memmove/memset/strlen/malloc/free and its float model",
            "every bound in coverage.bounds; values outside them are not covered",
            "units are compiled with goto-cc from /repo's working tree at check time",
        ],
        "wall_s": round(time.time() - t0, 2),
        "violations": len(violations),
    }
    evdir = os.environ.get("VERIF_EVIDENCE_DIR") or os.path.join(VERIF, "evidence")
    os.makedirs(evdir, exist_ok=True)
    with open(os.path.join(evdir, prop + ".json"), "w") as f:
        json.dump(ev, f, indent=1, default=str)
    say("SUMMARY property=%s tier=%s queries=%d runs=%d passed_main=%d nontrivial=%d violations=%d inconclusive=%d unusable=%d wall=%.0fs" % (
        prop, tier, len(queries), len(results), len(passed_main), len(nontrivial), len(violations),
        len(inconclusive), len(unusable), time.time() - t0))
    if violations:
        return 1
    if unusable:
        return 2
    if queries and not passed_main:
        # nothing decided (every query hit its time/memory cap): not a pass and not an alarm;
        # the evidence file says so (distinct_nontrivial = 0, inconclusive list)
        say("NOTHING-DECIDED property=%s: every query was inconclusive on this run" % prop)
    return 0


def do_replay(prop, path):
    with open(path) as f:
        head = f.read().splitlines()
    qn = None
    defs = {}
    for l in head:
        m = re.match(r"# property=(\S+) query=(\S+)", l)
        if m:
            qn = m.group(2)
        m = re.match(r"# defines=(.*)", l)
        if m:
            defs = json.loads(m.group(1))
    mod = load_prop(prop)
    tiers = ["quick", "thorough"]
    for l in head:
        m = re.match(r"# tier=(\S+)", l)
        if m:
            tiers = [m.group(1)]
    for tier in tiers:
        for q in mod.queries(tier):
            if q.name == qn:
                wd = tempfile.mkdtemp(prefix="verif-replay-")
                try:
                    if q.cxx:
                        defs.update(q.cxx(q, wd) or {})
                    ok, txt = native_replay(q, wd, defs, os.path.abspath(path))
                finally:
                    shutil.rmtree(wd, ignore_errors=True)
                print(txt)
                if ok:
                    print("VIOLATION property=%s replay=%s" % (prop, path))
                    return 1
                print("replay: not reproduced" if ok is False else "replay: could not run")
                return 0 if ok is False else 2
    print("replay: query %s not found" % qn)
    return 2


def selftest():
    ok = True
    for tool in ("cbmc", "goto-cc", "goto-instrument", "gcc", "clang++-14"):
        p = shutil.which(tool)
        print("%-16s %s" % (tool, p))
        if not p and tool != "clang++-14":
            ok = False
    r = sh(["cbmc", "--version"])
    print("cbmc version", r.stdout.decode().strip())
    if not os.path.isdir(REPO):
        print("missing", REPO)
        ok = False
    return 0 if ok else 1


def main():
    ap = argparse.ArgumentParser()
    ap.add_argument("prop", nargs="?")
    ap.add_argument("--tier", default=os.environ.get("VERIF_TIER", "quick"), choices=["quick", "thorough"])
    ap.add_argument("--replay")
    ap.add_argument("--only")
    ap.add_argument("--selftest", action="store_true")
    a = ap.parse_args()
    if a.selftest:
        sys.exit(selftest())
    if not a.prop:
        ap.error("property id required")
    if a.replay:
        sys.exit(do_replay(a.prop, a.replay))
    sys.exit(check_property(a.prop, a.tier, a.only))


if __name__ == "__main__":
    main()
