#!/usr/bin/env python3
"""
py2c: translate the byte-encoder functions of /repo/mpt.py (encode_cobs, ...) from
the Python AST into C over a fixed-capacity byte vector, for CBMC.

Supported subset (anything else -> SystemExit "not encodable"):
  int variables, one bytearray() result, ret.append(e), len(ret), ret[i] load/store,
  `for b in msg`, if/else, continue, return ret, comparisons, + and -,
  `if isinstance(msg, str): ...` (dropped: the harness passes bytes).
Python ints do not overflow; all values here are < 2^16, the generated code asserts it.

usage: py2c.py <mpt.py> <function> <out.c>
"""
import ast
import sys


class NotEncodable(Exception):
    pass


def expr(e, ret):
    if isinstance(e, ast.Constant) and isinstance(e.value, int):
        return str(e.value)
    if isinstance(e, ast.Name):
        return "v_" + e.id
    if isinstance(e, ast.BinOp) and isinstance(e.op, (ast.Add, ast.Sub)):
        return "(%s %s %s)" % (expr(e.left, ret), "+" if isinstance(e.op, ast.Add) else "-", expr(e.right, ret))
    if isinstance(e, ast.Compare) and len(e.ops) == 1:
        ops = {ast.Eq: "==", ast.NotEq: "!=", ast.Lt: "<", ast.LtE: "<=", ast.Gt: ">", ast.GtE: ">="}
        for k, v in ops.items():
            if isinstance(e.ops[0], k):
                return "(%s %s %s)" % (expr(e.left, ret), v, expr(e.comparators[0], ret))
    if isinstance(e, ast.Call) and isinstance(e.func, ast.Name) and e.func.id == "len" and len(e.args) == 1 \
            and isinstance(e.args[0], ast.Name) and e.args[0].id == ret:
        return "((long) py_len)"
    if isinstance(e, ast.Subscript) and isinstance(e.value, ast.Name) and e.value.id == ret:
        return "py_get(%s)" % expr(e.slice, ret)
    raise NotEncodable(ast.dump(e))


def stmts(body, ret, msg, ind, declared):
    out = []
    pad = "\t" * ind
    for s in body:
        if isinstance(s, ast.Expr) and isinstance(s.value, ast.Constant):
            continue  # docstring
        if isinstance(s, ast.Assign) and len(s.targets) == 1:
            t = s.targets[0]
            if isinstance(t, ast.Name):
                if isinstance(s.value, ast.Call) and isinstance(s.value.func, ast.Name) and s.value.func.id == "bytearray" and not s.value.args:
                    out.append(pad + "py_len = 0;")
                    continue
                if t.id not in declared:
                    declared.add(t.id)
                out.append(pad + "v_%s = %s; PY_SMALL(v_%s);" % (t.id, expr(s.value, ret), t.id))
                continue
            if isinstance(t, ast.Subscript) and isinstance(t.value, ast.Name) and t.value.id == ret:
                out.append(pad + "py_set(%s, %s);" % (expr(t.slice, ret), expr(s.value, ret)))
                continue
            raise NotEncodable(ast.dump(s))
        if isinstance(s, ast.Expr) and isinstance(s.value, ast.Call) and isinstance(s.value.func, ast.Attribute) \
                and s.value.func.attr == "append" and isinstance(s.value.func.value, ast.Name) and s.value.func.value.id == ret:
            out.append(pad + "py_append(%s);" % expr(s.value.args[0], ret))
            continue
        if isinstance(s, ast.If):
            # drop `if isinstance(msg, str): ...`
            if isinstance(s.test, ast.Call) and isinstance(s.test.func, ast.Name) and s.test.func.id == "isinstance":
                continue
            out.append(pad + "if (%s) {" % expr(s.test, ret))
            out += stmts(s.body, ret, msg, ind + 1, declared)
            if s.orelse:
                out.append(pad + "} else {")
                out += stmts(s.orelse, ret, msg, ind + 1, declared)
            out.append(pad + "}")
            continue
        if isinstance(s, ast.For) and isinstance(s.target, ast.Name) and isinstance(s.iter, ast.Name) and s.iter.id == msg and not s.orelse:
            declared.add(s.target.id)
            out.append(pad + "for (py_i = 0; py_i < py_msglen; py_i++) {")
            out.append(pad + "\tv_%s = py_msg[py_i];" % s.target.id)
            out += stmts(s.body, ret, msg, ind + 1, declared)
            out.append(pad + "}")
            continue
        if isinstance(s, ast.Continue):
            out.append(pad + "continue;")
            continue
        if isinstance(s, ast.Return) and isinstance(s.value, ast.Name) and s.value.id == ret:
            out.append(pad + "return;")
            continue
        raise NotEncodable(ast.dump(s))
    return out


def translate(src, fname):
    tree = ast.parse(src)
    fn = None
    for n in tree.body:
        if isinstance(n, ast.FunctionDef) and n.name == fname:
            fn = n
    if fn is None:
        raise NotEncodable("function %s not found" % fname)
    msg = fn.args.args[0].arg
    ret = None
    for n in ast.walk(fn):
        if isinstance(n, ast.Assign) and isinstance(n.value, ast.Call) and isinstance(n.value.func, ast.Name) and n.value.func.id == "bytearray" \
                and not n.value.args:
            ret = n.targets[0].id
    if ret is None:
        raise NotEncodable("no bytearray() result")
    declared = set()
    body = stmts(fn.body, ret, msg, 1, declared)
    c = ["/* generated by engine/py2c.py from mpt.py:%s (line %d) -- do not edit */" % (fname, fn.lineno),
         "void py_%s(void)" % fname, "{", "\tlong py_i;"]
    for d in sorted(declared):
        c.append("\tlong v_%s = 0;" % d)
    c += body
    c.append("}")
    return "\n".join(c) + "\n"


if __name__ == "__main__":
    try:
        out = translate(open(sys.argv[1]).read(), sys.argv[2])
    except NotEncodable as e:
        sys.stderr.write("py2c: not encodable: %s\n" % e)
        sys.exit(2)
    open(sys.argv[3], "w").write(out)
