#!/usr/bin/env python3
"""Regenerate /verif/MANIFEST.json from props/*.py (each exposes MANIFEST = {...})."""
import importlib.util, json, os, sys
V = os.path.dirname(os.path.dirname(os.path.abspath(__file__)))
sys.path.insert(0, os.path.join(V, "engine"))
import vp  # noqa

ids = [json.loads(l)["id"] for l in open(os.path.join(V, "properties.jsonl"))]
checks, na = [], []
NA_REASONS = json.load(open(os.path.join(V, "engine", "not_applicable.json")))
for i in ids:
    p = os.path.join(V, "props", i + ".py")
    if not os.path.exists(p):
        na.append({"property_id": i, "reason": NA_REASONS.get(i, "no solver query built for this property yet (see DESIGN.md section 4 for the planned encoding)")})
        continue
    mod = vp.load_prop(i)
    m = dict(getattr(mod, "MANIFEST", {}))
    qq = mod.queries("quick")
    qt = mod.queries("thorough")
    title = open(os.path.join(V, "props", i + ".py")).readline().lstrip("# ").strip()
    outs = sorted({x.outside for x in qq if x.outside and x.outside != "-"})
    m.setdefault("text", "Bounded model checking (CBMC 6.11: symbolic execution of the real /repo units named in the evidence file + SAT): "
                 "for every input / pre-state inside the stated bounds every oracle assertion, bounds/pointer check and unwinding assertion is UNSAT, "
                 "and each harness end is shown reachable by a witness twin whose trace is replayed natively. %d queries in the quick tier (%s), %d in the thorough tier. "
                 "This is the right level here because the property quantifies over all inputs/pre-states of small pure-C kernels, where one solver query covers the "
                 "rare boundary combinations the example-based suite never constructs; nothing is claimed outside the bounds."
                 % (len(qq), ", ".join(sorted({x.harness for x in qq})), len(qt)))
    m.setdefault("note", "Trusted: CBMC 6.11 (symex, memory and float models, MiniSat/CaDiCaL), goto-cc, the harness oracle/reference models and the stubs listed in the evidence file. "
                 "Assumptions: " + "; ".join(getattr(mod, "ASSUMPTIONS", []) + ["allocation never fails", "C locale character classes"]) +
                 ". Outside the claim: " + " / ".join(outs)[:900])
    checks.append({
        "property_id": i,
        "quick_cmd": "./check %s --tier quick" % i,
        "thorough_cmd": "./check %s --tier thorough" % i,
        "evidence_file": "evidence/%s.json" % i,
        "replay_cmd_template": "./check %s --replay {path}" % i,
        "engine": "cbmc-driver",
        "level_claimed": {
            "category": "model_checking",
            "text": m.get("text", "bounded symbolic execution of the real C units with CBMC; every assertion, bounds/pointer check and unwinding assertion UNSAT within the stated bounds, witness twins SAT"),
            "design_ref": m.get("design_ref", "DESIGN.md section 4 (%s)" % i),
        },
        "level_note": m.get("note", "trusted: CBMC 6.11 (symex, memory/float models, MiniSat/CaDiCaL), goto-cc, the harness oracle and stubs listed in the evidence file; holds only inside the bounds listed in evidence coverage.bounds"),
        "technique": m.get("technique", "CBMC bounded symbolic execution of the real C units + SAT (solver verdict over all inputs within bounds)"),
    })
man = {
    "version": 1,
    "setup_cmd": "python3 engine/vp.py --selftest",
    "hooks": {
        "guard": "BECM_MPT_BASE_VERIF",
        "enable": "checks compile the units they need directly from /repo's working tree with goto-cc -DBECM_MPT_BASE_VERIF; no source hook exists in /repo (the define is unused by the sources)",
        "baseline_off_cmd": "cmake -G Ninja -B /repo/_build -S /repo && cmake --build /repo/_build && ctest --test-dir /repo/_build -j8 --timeout 900",
        "source_commits": [],
        "add_only": True,
    },
    "engines": [{"name": "cbmc-driver", "path": "engine/vp.py", "serves_properties": [c["property_id"] for c in checks],
                 "kind_free_text": "goto-cc build of real /repo units + harness -> function-pointer restriction -> cbmc (bounded symex, portfolio of SAT back ends) -> witness twins -> native ASan/UBSan replay of counterexamples -> evidence"}],
    "checks": checks,
    "not_applicable": na,
    "notes": "Exit codes: 0 all queries UNSAT (or only listed known findings), 1 replayed violation (VIOLATION line), 2 check unusable. Known findings: known_findings.json.",
}
json.dump(man, open(os.path.join(V, "MANIFEST.json"), "w"), indent=1)
print("checks:", [c["property_id"] for c in checks], "na:", len(na))
