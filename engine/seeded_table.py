#!/usr/bin/env python3
"""Print a markdown table of the seeded changes and which check/query caught them (from seeded/*/detect.json)."""
import json, os, re
V = os.path.dirname(os.path.dirname(os.path.abspath(__file__)))
rows = []
for n in sorted(os.listdir(os.path.join(V, "seeded"))):
    d = os.path.join(V, "seeded", n)
    meta = json.load(open(os.path.join(d, "meta.json")))
    det = {}
    if os.path.exists(os.path.join(d, "detect.json")):
        det = json.load(open(os.path.join(d, "detect.json")))
    res = []
    for tier, props in det.items():
        for p, r in props.items():
            if r["exit"] == 1:
                q = ""
                if r.get("details"):
                    m = re.search(r"query=(\S+)", r["details"][0])
                    q = m.group(1) if m else ""
                res.append("%s/%s: caught (%s)" % (p, tier, q))
            elif r["exit"] == 0:
                res.append("%s/%s: missed" % (p, tier))
            else:
                res.append("%s/%s: check unusable (exit %d)" % (p, tier, r["exit"]))
    rows.append("| %s | %s | %s | %s |" % (n, meta.get("summary", "")[:140].replace("|", "/"), meta.get("needs", "")[:110].replace("|", "/"), "; ".join(res) or "not evaluated"))
print("| seeded change | what was changed | needs | result |\n|---|---|---|---|")
print("\n".join(rows))
