# C14 Node trees stay structurally sound
ASSUMPTIONS = ["nodes are static objects (identity = index); release/clone are separate heap harnesses",
               "node_insert.c is compiled by textual inclusion with mpt_gnode_pos routed through an unprototyped adapter (CBMC needs identical function-pointer types)"]
UNITS = ["mptcore/node/%s.c" % f for f in "gnode_after gnode_before gnode_pos node_unlink gnode_swap gnode_relink node_locate node_move".split()] + ["mptcore/misc/identifier.c"]
OPS = ["UNLINK", "GNODE_ADD", "GNODE_INSERT", "AFTER", "BEFORE", "SWAP", "NODE_ADD", "NODE_INSERT", "LOCATE", "POS"]
OPS_THOROUGH = ["MOVE"]


def queries(tier):
    nn = 4
    qs = []
    for op in OPS + (OPS_THOROUGH if tier == "thorough" else []):
        nn = 3 if (tier == "quick" and op in ("SWAP", "MOVE", "NODE_ADD", "NODE_INSERT", "GNODE_ADD")) else 4
        qs.append(Q("node_" + op.lower(), "C14/nodes.c", units=UNITS,
                    harness_defines={"OP": "OP_" + op, "NN": nn, "V_NMAX": 96},
                    defines={}, unwind_default=nn + 3, flags=["--memory-leak-check", "--max-field-sensitivity-array-size", "200"],
                    fp=[(r"getnode", ["verif_gnode_pos_u", "node_locate"])],
                    stubs=["libc.c", "no_traits.c", "libc_loops.c"],
                    unwind={"memcpy": 14, "memset": 14, "memmove": 14, "strlen": 4, "shape": 6, "names": 6},
                    bounds="%d nodes in every well-formed forest shape (links symbolic), names from {a,b,''}; one %s with position -3..3" % (nn, op),
                    outside="more than %d nodes; histories" % nn))
    if tier == "thorough":   # 4-node concrete family still exceeds 240 s (identifier compare under recursion): thorough tier only
      qs.append(Q("node_move_merge", "C14/nodes.c", units=UNITS, harness_defines={"OP": "OP_MOVE", "NN": 4, "V_NMAX": 96, "MOVE_SHAPE": 1},
                unwind_default=7, flags=["--memory-leak-check", "--max-field-sensitivity-array-size", "200"],
                fp=[(r"getnode", ["verif_gnode_pos_u", "node_locate"])], stubs=["libc.c", "no_traits.c", "libc_loops.c"],
                unwind={"memcpy": 14, "memset": 14, "memmove": 14, "strlen": 4, "shape": 6, "names": 6, "memcmp": 5},
                bounds="mpt_node_move of a source list into a one-element target list: source head with one child plus a fourth node that is (symbolic) second child of the source head, child of the target head (recursive merge) or second source element; names from {a,b,''} symbolic, so both the 'move whole node' and the 'adopt / merge children' branches are reached",
                outside="more than 4 nodes; target lists longer than one element (thorough node_move covers symbolic shapes)", timeout=1500))
    qs.append(Q("node_locate_nul_names", "C14/nodes.c", units=UNITS, harness_defines={"OP": "OP_LOCATE", "NN": 3, "V_NMAX": 96, "NUL_NAMES": 1},
                unwind_default=6, flags=["--memory-leak-check", "--max-field-sensitivity-array-size", "200"],
                fp=[(r"getnode", ["verif_gnode_pos_u", "node_locate"])], stubs=["libc.c", "no_traits.c", "libc_loops.c"],
                unwind={"memcpy": 14, "memset": 14, "memmove": 14, "strlen": 4, "shape": 6, "names": 6, "memcmp": 5},
                bounds="3 nodes in every well-formed shape, three-byte names that differ only behind an embedded NUL byte; forward by-name search",
                outside="see node_locate"))
    qs.append(Q("node_release", "C14/release.c",
                units=["mptcore/node/%s.c" % f for f in "node_new node_destroy node_clear node_unlink gnode_after gnode_before gnode_pos node_locate".split()] + ["mptcore/misc/identifier.c"],
                unwind_default=6, flags=["--memory-leak-check", "--max-field-sensitivity-array-size", "200"],
                fp=[(r"getnode", ["verif_gnode_pos_u", "node_locate"]), (r"_vptr\)\.unref", ["h_none"])], stubs=["libc.c", "libc_loops.c"],
                unwind={"memcpy": 20, "memset": 60, "memmove": 20},
                bounds="parent with two children (heap nodes); destroy of a symbolic target, linked or unlinked first, or clear + destroy of the parent",
                outside="deeper trees; nodes with metatypes; clone"))
    for (dp, ls) in (() if tier == "quick" else ((0, 0), (1, 0), (0, 1), (1, 1))):   # does not finish in 240 s: thorough tier only
      qs.append(Q("node_clone_deep%d_list%d" % (dp, ls), "C14/clone.c", harness_defines={"DEEP": dp, "LIST": ls},
                  units=["mptcore/node/%s.c" % f for f in "node_new node_destroy node_clear node_unlink gnode_after gnode_before gnode_pos node_locate node_clone tree_clone".split()] + ["mptcore/misc/identifier.c"],
                  unwind_default=6, flags=["--memory-leak-check", "--max-field-sensitivity-array-size", "200"],
                  fp=[(r"getnode", ["verif_gnode_pos_u", "node_locate"]), (r"_vptr\)\.(unref|clone)", ["h_none"])], stubs=["libc.c", "libc_loops.c"],
                  unwind={"memcpy": 20, "memset": 60, "memmove": 20, "memcmp": 8, "strlen": 4},
                  bounds="heap tree: root with two children, optionally one grandchild; mpt_tree_clone of the root or mpt_list_clone of the child list",
                  outside="nodes with metatypes (clone failure paths); wider/deeper trees", timeout=1500))
    return qs
