# C08 Configuration parser is total and fails cleanly
ASSUMPTIONS = ["path storage = static buffer object with a harness vtable (private, mutable, capacity 24, growth refused); the real path_* functions run on it",
               "one parser call per query ('*' section-prefix format with default delimiters); the driver loop, the other two styles and tree building are outside the built queries",
               "mpt_log is an empty stub"]
U = ["mptcore/parse/%s.c" % f for f in "parse_format_pre parse_option parse_data parse_getchar parse_nextvis parse_endline parse_ncheck parse_accept".split()] + [
    "mptcore/config/%s.c" % f for f in "path_addchar path_add path_del path_valid path_fini".split()] + [
    "mptcore/array/array_slice.c", "mptcore/array/array_append.c", "mptcore/array/buffer_insert.c", "mptcore/array/buffer_alloc.c",
    "mptcore/array/buffer_set.c", "mptcore/array/array_clone.c", "mptcore/misc/refcount.c"]
COMMON = dict(units=U, fp=BUF_FP + [(r"getc", ["h_getc"])], stubs=["libc.c", "libc_loops.c", "no_traits.c", "malloc_pages.c"],
              flags=["--max-field-sensitivity-array-size", "100"])


def queries(tier):
    n = 3 if tier == "quick" else 5
    return [Q("format_pre_total", "C08/pre.c", harness_defines={"MODE": 1, "N": n}, unwind_default=n + 3,
              unwind={"memcpy": 26, "memset": 26, "memmove": 26, "memchr": 6},
              bounds="one mpt_parse_format_pre call on %d fully symbolic input bytes (all 256 values), empty initial path" % n,
              outside="inputs above %d bytes per call; non-empty initial path; 'enc'/'sep' styles; the mpt_parse_config loop; names/values beyond the 24-byte storage" % n,
              timeout=900 if tier == "quick" else None, **COMMON)]
