# C08 Configuration parser is total and fails cleanly
ASSUMPTIONS = ["path storage functions bound to the flat path model PM (include/stubs/pathmodel.c, 32 bytes); the parser units are real",
               "one parser call per query ('*' section-prefix format with default delimiters); the driver loop, the other two styles and tree building are outside the built queries",
               "mpt_log is an empty stub"]
REN = {"mpt_path_addchar": "verif_pm_addchar", "mpt_path_delchar": "verif_pm_delchar", "mpt_path_valid": "verif_pm_valid",
       "mpt_path_add": "verif_pm_add", "mpt_path_invalidate": "verif_pm_invalidate"}
U = [("mptcore/parse/%s.c" % f, REN) for f in "parse_format_pre parse_option parse_data parse_getchar".split()] + [
    "mptcore/parse/%s.c" % f for f in "parse_nextvis parse_endline parse_ncheck parse_accept".split()]
COMMON = dict(units=U, fp=[(r"getc", ["h_getc"])], stubs=["libc.c", "pathmodel.c"], flags=["--max-field-sensitivity-array-size", "100"])


def queries(tier):
    n = 3 if tier == "quick" else 5
    real = ["mptcore/config/%s.c" % f for f in "path_add path_addchar path_valid path_fini".split()] + ARRAY_UNITS
    steps = []
    for (u, po, ac) in ([(64, 0, 0), (64, 0, 1), (63, 1, 0), (64, 2, 0)] if tier == "quick" else [(u, po, ac) for u in (62, 63, 64) for po in (0, 1, 2) for ac in (0, 1)]):
        steps.append(Q("path_step_real_u%d_p%d_%s" % (u, po, "addchar" if ac else "add"), "C08/pathstep.c", units=real, harness_defines={"USED": u, "POST": po, "ADDCHAR": ac},
                       unwind_default=70, fp=BUF_FP, flags=["--memory-leak-check", "--max-field-sensitivity-array-size", "400"],
                       stubs=["libc.c", "malloc_pages.c", "libc_loops.c", "no_traits.c"], unwind={"memcpy": 70, "memset": 70, "memmove": 70, "memchr": 70},
                       bounds="real path storage (allocator buffer of capacity 64): stored data %d bytes, %d post characters, one %s (growth/relocation when full)" % (u, po, "mpt_path_addchar" if ac else "mpt_path_add"),
                       outside="other capacities; shared/immutable path buffers; binary separator mode"))
    return steps + [Q("format_pre_total", "C08/pre.c", harness_defines={"MODE": 1, "N": n}, unwind_default=n + 3,
              unwind={"memchr": 6, "verif_pm_add": 34},
              bounds="one mpt_parse_format_pre call on %d fully symbolic input bytes (all 256 values), empty initial path" % n,
              outside="inputs above %d bytes per call; non-empty initial path; 'enc'/'sep' styles; the mpt_parse_config loop; names/values beyond the 24-byte storage" % n,
              **COMMON)]
