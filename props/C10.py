# C10 Configuration store behaves as a path-to-value map
ASSUMPTIONS = ["store queries: values are opaque tokens (mpt_meta_new / mpt_meta_set replaced by a counting contract stub); step paths, operations and handles fixed by the driver (case split), values symbolic",
               "the C++ private configuration (config_item_*) is outside the built queries"]
U = ["mptcore/config/%s.c" % f for f in "path_set path_next path_last path_fini".split()] + ["mptcore/array/array_clone.c"]


def queries(tier):
    qs = [Q("path_split_short", "C10/pathsplit.c", units=U, harness_defines={"PRE": 0, "T": 5 if tier == "quick" else 7},
            unwind_default=12, fp=BUF_FP, stubs=["libc.c", "no_traits.c"],
            bounds="strings of <= %d characters over {a, b, '.', NUL}" % (5 if tier == "quick" else 7), outside="longer strings (see path_split_long)")]
    for pre in ((254, 256) if tier == "quick" else (253, 254, 255, 256, 257)):
        qs.append(Q("path_split_long_%d" % pre, "C10/pathsplit.c", units=U, harness_defines={"PRE": pre, "T": 3},
                    unwind_default=pre + 8, unwind={"harness.0": pre + 2, "harness": 8}, fp=BUF_FP, timeout=900, flags=["--max-field-sensitivity-array-size", "300"], stubs=["libc.c", "no_traits.c"],
                    bounds="%d concrete characters followed by a symbolic tail of 3 over {a, b, '.', NUL}: first element lengths %d..%d across the 255-byte length field" % (pre, pre, pre + 3),
                    outside="other prefix lengths"))
    SU = ["mptcore/config/%s.c" % f for f in "config_global node_assign node_query path_set path_next path_fini".split()] + [
        "mptcore/node/%s.c" % f for f in "node_new node_destroy node_clear node_unlink gnode_after gnode_before gnode_pos node_locate".split()] + [
        "mptcore/misc/identifier.c", "mptcore/array/array_clone.c"]
    # (paths, ops): path index into {a, a.b, a.c, b, a.b.c, a.b.a}; op 0 assign, 1 remove, 2 query, +4 = through the sub-tree view rooted at a.b
    # histories with one assignment finish (15 s); a second assignment on CBMC's dynamic objects does not (timeout 300 s, 8 GB; also with a static block pool)
    hist = [((2, 4, 2), (0, 5, 2)), ((4, 1, 5), (0, 1, 2)), ((5, 5, 4), (4, 5, 6)), ((4, 0, 4), (0, 1, 2)), ((3, 3, 3), (0, 2, 1)), ((4, 4, 4), (4, 6, 5)), ((2, 0, 2), (0, 2, 1)), ((1, 4, 5), (0, 5, 6))]
    hist += [((1, 1, 4), (3, 2, 6))]   # op 3: materialise the view's base node (creates a.b); after an earlier assignment it is a second creation and does not finish (300 s)
    if tier == "thorough":
        allh = [((a, b, c), (x, y, z)) for a in range(6) for b in range(6) for c in range(6) for x in (0, 4) for y in (1, 2, 5, 6) for z in (1, 2, 5, 6)
                if (x < 4 or a >= 4) and (y < 4 or b >= 4) and (z < 4 or c >= 4)]
        hist = hist + [h for h in allh[::29] if h not in hist]
    for (sq, ops) in hist:
        qs.append(Q("store_history_p%d%d%d_o%d%d%d" % (sq + ops), "C10/store.c", units=SU, harness_defines=dict({"SEQ": "{%d,%d,%d}" % sq, "OPS": "{%d,%d,%d}" % ops, "NSTEP": 3, "V_NMAX": 32}, **({"VIEWOFF": 1} if (sum(sq) + sum(ops)) % 2 else {})),
                    unwind_default=8, flags=["--memory-leak-check", "--max-field-sensitivity-array-size", "200"],
                    fp=[(r"getnode", ["verif_gnode_pos_u", "node_locate"]), (r"^collectionEach", ["h_item"]), (r"^mpt_(array_clone|path_fini):", ["h_buf_none"]),
                        (r"^harness: .*vm\._vptr\)\.unref", ["configUnref"]), (r"^(configRemove|mpt_node_assign|mpt_node_destroy): .*unref", ["h_unref"]),
                        (r"^configAssign: .*convert", ["h_conv"]), (r"^h_g(conv|node)", ["configConv"]), (r"^configQuery: .*fcn", ["h_handler"]),
                        (r"\.query\)", ["configQuery"]), (r"\.assign\)", ["configAssign"]), (r"\.remove\)", ["configRemove"])],
                    stubs=["libc.c", "libc_loops.c", "no_traits.c"], unwind={"memcpy": 20, "memset": 60, "memmove": 20, "strlen": 8, "strncmp": 8, "strcmp": 8, "strlen.0": 8, "strncmp.0": 8, "strcmp.0": 8},
                    timeout=300,
                    bounds="3-step history with one assignment over the path universe {a, a.b, a.c, b, a.b.c, a.b.a}: paths %s and operations %s (0 assign, 1 remove, 2 query, 3 materialise the view's base node, +4 through the sub-tree view at a.b; the view is created from an offset-0 or an offset-2 path depending on the history) "
                           "fixed by the driver (case split; a symbolic operation makes the heap shape symbolic and does not finish), assigned values symbolic; then all 6 paths are queried and the store is cleared" % (sq, ops),
                    outside="value text (mpt_meta_new/mpt_meta_set by contract), histories outside the driver's list, other path sets, C++ private configuration"))
    return qs
