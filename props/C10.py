# C10 Configuration store behaves as a path-to-value map
ASSUMPTIONS = ["path kernels only in the quick tier; tree/store queries are listed in DESIGN.md as not yet built"]
U = ["mptcore/config/%s.c" % f for f in "path_set path_next path_last path_fini".split()] + ["mptcore/array/array_clone.c"]


def queries(tier):
    qs = [Q("path_split_short", "C10/pathsplit.c", units=U, harness_defines={"PRE": 0, "T": 5 if tier == "quick" else 7},
            unwind_default=12, fp=BUF_FP, stubs=["libc.c", "no_traits.c"],
            bounds="strings of <= %d characters over {a, b, '.', NUL}" % (5 if tier == "quick" else 7), outside="longer strings (see path_split_long)")]
    for pre in ((254, 256) if tier == "quick" else (253, 254, 255, 256, 257)):
        qs.append(Q("path_split_long_%d" % pre, "C10/pathsplit.c", units=U, harness_defines={"PRE": pre, "T": 3},
                    unwind_default=pre + 8, unwind={"harness.0": pre + 2, "harness": 8}, fp=BUF_FP, timeout=900, flags=["--max-field-sensitivity-array-size", "300"], stubs=["libc.c", "no_traits.c"],
                    bounds="%d concrete characters followed by a symbolic tail of 3 over {a, b, '.', NUL}: first element lengths %d..%d across the 255-byte length field" % (pre, pre, pre + 3),
                    outside="other prefix lengths"))
    return qs
