# C11 Event dispatch reaches exactly the registered handler
ASSUMPTIONS = ["command table constructed by the harness over a static buffer with a harness vtable (private, cannot grow); table growth and histories from mpt_dispatch_init are thorough-tier queries",
               "mpt_log / mpt_context_reply are empty stubs (formatting is not the subject)"]
U = ["mptcore/event/%s.c" % f for f in "dispatch_emit dispatch_set dispatch_finit command_get command_set command_traits".split()] + [
    "mptcore/message/message_read.c", "mptcore/array/array_insert.c", "mptcore/array/buffer_insert.c", "mptcore/array/array_clone.c",
    "mptcore/array/buffer_alloc.c", "mptcore/array/buffer_set.c", "mptcore/misc/refcount.c"]
FP = [(r"cmd\)\(|\.cmd\)|_err\.cmd", ["h_event"]), (r"convertable", ["h_none"]), (r"\bfini\b|\.fini\)", ["_command_fini"]), (r"\binit\b|\.init\)", ["_command_init"])] + BUF_FP
OPS = ["SET", "CLEAR", "EMIT_ID", "EMIT_MSG", "EMIT_DEFAULT", "FINI", "REPLACE"]


def queries(tier):
    qs = []
    for op in OPS:
        qs.append(Q("disp_" + op.lower(), "C11/dispatch.c", units=U, harness_defines={"OP": "OP_" + op},
                    unwind_default=8, fp=FP, stubs=["libc.c", "libc_loops.c"], unwind={"memcpy": 30, "memset": 30, "memmove": 130},
                    flags=["--max-field-sensitivity-array-size", "200"],
                    bounds="table of 0..4 slots, each empty or live with id in {1,2,3} (distinct), default id 0..3, event id 0..4; handler returns {-1, None, Default, Fail, Default|Fail} and may rewrite the event id; one %s" % op,
                    outside="tables above 4 slots; table growth; hash dispatch; histories"))
    return qs
