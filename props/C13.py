# C13 Ring-buffer queue is a faithful byte deque
UB_IS_VIOLATION = False
QU = ["mptcore/queue/%s.c" % f for f in (
    "qpush qpost qpre qpop qshift qunshift queue_crop queue_get queue_set queue_data "
    "queue_empty queue_align queue_find queue_string memrev queue_resize").split()]
OPS = ["PUSH", "UNSHIFT", "POP", "SHIFT", "CROP", "GET", "SET", "POST", "PRE", "DATA_EMPTY",
       "ALIGN", "STRING", "FIND", "MEMREV", "RESIZE"]
REGIONS = {"POP": ["C13_QPOP_SPLIT"], "CROP": ["C13_CROP_WRAP"], "ALIGN": ["C13_ALIGN_SPLIT"]}


def queries(tier):
    maxq = 6 if tier == "quick" else 8
    qs = []
    for op in OPS:
        if op == "RESIZE":
            # heap-backed store + realloc + mpt_queue_align: does not finish with a symbolic ring state (> 24 GB);
            # driver-side case split over (capacity, offset, fill, new size), bytes symbolic
            tuples = [(4, 2, 2, 3), (4, 3, 3, 2), (4, 0, 4, 6), (4, 1, 2, 0), (3, 2, 2, 5), (4, 1, 3, 2)] if tier == "quick" else \
                     [(m, o, l, n) for m in (3, 4) for o in range(0, m) for l in range(0, m + 1) for n in range(0, 7)]
            for (m, o, l, n) in tuples:
                qs.append(Q("q_resize_m%d_o%d_l%d_n%d" % (m, o, l, n), "C13/qop.c", units=QU,
                            harness_defines={"OP": "OP_RESIZE", "MAXQ": 4, "MAXC": m, "OFFC": o, "LENC": l, "NSZC": n},
                            unwind_default=14, unwind={"mpt_memrev.0": 2, "mpt_memswap.0": 2, "realloc": 14}, witness=[""],
                            stubs=["libc.c", "realloc_small.c", "libc_loops.c"], flags=["--max-field-sensitivity-array-size", "100", "--memory-leak-check"],
                            bounds="heap-backed ring: capacity %d, offset %d, fill %d, resize to %d (case split), content symbolic" % (m, o, l, n),
                            outside="capacities above 4; mpt_queue_prepare"))
            continue
        if op in ("ALIGN", "STRING", "MEMREV", "RESIZE"):
            maxq = 4 if tier == "quick" else 5   # 1024-byte scratch arrays of mpt_memrev dominate the cost
        qs.append(Q("q_" + op.lower(), "C13/qop.c", units=QU,
                    harness_defines={"OP": "OP_" + op, "MAXQ": (4 if op == "RESIZE" else maxq)},
                    unwind_default=maxq + 6, fp_default=["find_cmp"],
                    unwind={"mpt_memrev.0": 2, "mpt_memswap.0": 2}, 
                    witness=["", "WRAPPED"], regions=REGIONS.get(op, []), mem_gb=(24 if op == "RESIZE" else None), weight=(3 if op == "RESIZE" else 1),
                    stubs=["libc.c"] + (["realloc_small.c", "libc_loops.c"] if op == "RESIZE" else []),
                    flags=(["--max-field-sensitivity-array-size", "100", "--memory-leak-check"] if op == "RESIZE" else []),
                    bounds="capacity 1..%d, every offset 0..max and fill 0..max, content symbolic; one %s with length/position 0..%d" % (maxq, op, maxq + 1),
                    outside="capacities above %d; mpt_memrev blocks above 1024 bytes (swap path)" % maxq))
    return qs
