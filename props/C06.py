# C06 Type registry hands out unique, stable, correctly described types
ASSUMPTIONS = ["registry state is the fresh process state (static tables); atexit is a no-op",
               "range exhaustion: one registration from a directly constructed fill level (type_traits.c included textually to reach its file-static tables); histories that long are outside the bound"]
UNITS = ["mptcore/types/type_traits.c", "mptcore/misc/identifier.c", "mptcore/array/array_traits.c",
         "mptcore/meta/meta_reference_traits.c", "mptcore/event/command_traits.c", "mptcore/array/array_clone.c"]
FP = [(r".", ["h_none"])]


def queries(tier):
    k = 2 if tier == "quick" else 4
    common = dict(units=UNITS, stubs=["libc.c", "libc_loops.c"], flags=["--max-field-sensitivity-array-size", "300"])
    ex = []
    for (kind, nm, rng) in ((0, "metatype", "0x100..0x7ff"), (1, "generic", "0x900..0xfff")):
        for nfull in ((59, 58) if tier == "quick" else (0, 1, 30, 57, 58, 59)):
            ex.append(Q("exhaust_%s_c%d" % (nm, nfull), "C06/exhaust.c", units=[u for u in UNITS if "type_traits" not in u], harness_defines={"KIND": kind, "NFULL": nfull},
                        unwind_default=64, stubs=["libc.c", "libc_loops.c"], flags=["--max-field-sensitivity-array-size", "300"],
                        bounds="one %s registration from an arbitrary fill level: %d full 30-entry chunks + one chunk filled 0..30 (symbolic), spare chunk linked or not; ids %s" % (nm, nfull, rng),
                        outside="named registrations at these fill levels (the duplicate search reads every entry); other chunk counts"))
    for (kind, nm) in ((2, "interface"), (3, "basic")):
        ex.append(Q("exhaust_%s" % nm, "C06/exhaust.c", units=[u for u in UNITS if "type_traits" not in u], harness_defines={"KIND": kind, "NFULL": 0},
                    unwind_default=68, stubs=["libc.c", "libc_loops.c"], flags=["--max-field-sensitivity-array-size", "300"],
                    bounds="one %s registration from every fill level up to and including the exhausted range (64 ids)" % nm, outside="named registrations at these fill levels"))
    ex.append(Q("alias_lookup", "C06/alias.c", units=UNITS + ["mptcore/types/alias_typeid.c"], unwind_default=40,
                unwind={"strlen": 12, "strcmp": 12, "strncmp": 12, "memcpy": 30, "memset": 30, "memmove": 30, "strchr": 16, "strlen.0": 16, "strcmp.0": 16, "strncmp.0": 16, "strchr.0": 16},
                stubs=["libc.c", "libc_loops.c"], flags=["--max-field-sensitivity-array-size", "300"],
                bounds="alias text 'logger' + 0..2 blanks/tabs + optional ':' + 0..2 blanks/tabs + symbol (all symbolic choices)", outside="other names; longer blank runs"))
    return ex + [
        Q("builtin_lookup", "C06/builtin.c", unwind_default=40, unwind={"strlen": 12, "strcmp": 12, "strncmp": 12, "memcpy": 30, "memset": 30, "memmove": 30},
          bounds="every id 0..0x1100 on the fresh registry", outside="registry states after registrations (register query)", **common),
    ] + [
        Q("register_%d%d_n%d%d" % (o1, o2, n1, n2), "C06/register.c", harness_defines={"K": 2, "OPS": "{%d,%d}" % (o1, o2), "NAMEIDX": "{%d,%d}" % (n1, n2)}, unwind_default=20,
          unwind={"strlen": 12, "strcmp": 12, "strncmp": 12, "harness": 4, "memcpy": 30, "memset": 30, "memmove": 30},
          bounds="two registrations of kinds (%d,%d) [0 basic (size 0..40 symbolic), 1 generic, 2 interface, 3 metatype] with names (%d,%d) from [solve, beta_, abc, object (a built-in interface name; interface registrations only)], each followed by id and name lookups" % (o1, o2, n1, n2),
          outside="other kind/name sequences; capacity exhaustion of a range", timeout=400, regions=["C06_NAME_CROSS_KIND"],
          no_main=(o1 >= 2 and o2 >= 2 and o1 != o2 and n1 == n2 and n1 != 2), **common)
        for (o1, o2, n1, n2) in ([(2, 2, 0, 0), (2, 2, 0, 1), (3, 3, 1, 1), (3, 3, 0, 1), (0, 1, 0, 0), (2, 3, 0, 2), (3, 2, 0, 0), (2, 2, 3, 0), (2, 2, 0, 3)] if tier == "quick" else
                                 [(a, b, c, d) for a in range(4) for b in range(4) for c in range(3) for d in range(3) if (a >= 2 or c == 0) and (b >= 2 or d == 0)])
    ]
