# C06 Type registry hands out unique, stable, correctly described types
ASSUMPTIONS = ["registry state is the fresh process state (static tables); atexit is a no-op",
               "range exhaustion (64 / 64 / 1792 / 1791 registrations) is outside the bound"]
UNITS = ["mptcore/types/type_traits.c", "mptcore/misc/identifier.c", "mptcore/array/array_traits.c",
         "mptcore/meta/meta_reference_traits.c", "mptcore/event/command_traits.c", "mptcore/array/array_clone.c"]
FP = [(r".", ["h_none"])]


def queries(tier):
    k = 2 if tier == "quick" else 4
    common = dict(units=UNITS, stubs=["libc.c", "libc_loops.c"], flags=["--max-field-sensitivity-array-size", "300"])
    return [
        Q("builtin_lookup", "C06/builtin.c", unwind_default=40, unwind={"strlen": 12, "strcmp": 12, "strncmp": 12, "memcpy": 30, "memset": 30, "memmove": 30},
          bounds="every id 0..0x1100 on the fresh registry", outside="registry states after registrations (register query)", **common),
    ] + [
        Q("register_%d%d_n%d%d" % (o1, o2, n1, n2), "C06/register.c", harness_defines={"K": 2, "OPS": "{%d,%d}" % (o1, o2), "NAMEIDX": "{%d,%d}" % (n1, n2)}, unwind_default=20,
          unwind={"strlen": 12, "strcmp": 12, "strncmp": 12, "harness": 4, "memcpy": 30, "memset": 30, "memmove": 30},
          bounds="two registrations of kinds (%d,%d) [0 basic (size 0..40 symbolic), 1 generic, 2 interface, 3 metatype] with names (%d,%d) from [solve, beta_, abc], each followed by id and name lookups" % (o1, o2, n1, n2),
          outside="other kind/name sequences; capacity exhaustion of a range", timeout=400, regions=["C06_NAME_CROSS_KIND"], **common)
        for (o1, o2, n1, n2) in ([(2, 2, 0, 0), (2, 2, 0, 1), (3, 3, 1, 1), (3, 3, 0, 1), (0, 1, 0, 0), (2, 3, 0, 2)] if tier == "quick" else
                                 [(a, b, c, d) for a in range(4) for b in range(4) for c in range(3) for d in range(3) if (a >= 2 or c == 0) and (b >= 2 or d == 0)])
    ]
