# C06 Type registry hands out unique, stable, correctly described types
ASSUMPTIONS = ["registry state is the fresh process state (static tables); atexit is a no-op",
               "range exhaustion (64 / 64 / 1792 / 1791 registrations) is outside the bound"]
UNITS = ["mptcore/types/type_traits.c", "mptcore/misc/identifier.c", "mptcore/array/array_traits.c",
         "mptcore/meta/meta_reference_traits.c", "mptcore/event/command_traits.c", "mptcore/array/array_clone.c"]
FP = [(r".", ["h_none"])]


def queries(tier):
    k = 2 if tier == "quick" else 4
    common = dict(units=UNITS, stubs=["libc.c", "libc_loops.c"], flags=["--max-field-sensitivity-array-size", "300"])
    return [
        Q("builtin_lookup", "C06/builtin.c", unwind_default=40, unwind={"strlen": 12, "strcmp": 12, "strncmp": 12, "memcpy": 30, "memset": 30, "memmove": 30},
          bounds="every id 0..0x1100 on the fresh registry", outside="registry states after registrations (register query)", **common),
        Q("register_history", "C06/register.c", harness_defines={"K": k}, unwind_default=14,
          unwind={"strlen": 12, "strcmp": 12, "strncmp": 12, "harness": k + 2, "memcpy": 30, "memset": 30, "memmove": 30},
          bounds="%d registrations of symbolic kind (basic size 0..40, generic, named interface, named metatype; names from {alpha, beta_, abc}) each followed by id/name lookups" % k,
          outside="more than %d registrations; capacity exhaustion of a range" % k, **common),
    ]
