# C07 Scalar conversion is exact or refused
ASSUMPTIONS = ["'e' (long double) targets are not compiled in this tree (_MPT_FLOAT_EXTENDED_H undefined)"]

INT_SRC = [
    ("int8", "int8_t"), ("uint8", "uint8_t"), ("int16", "int16_t"), ("uint16", "uint16_t"),
    ("int32", "int32_t"), ("uint32", "uint32_t"), ("int64", "int64_t"), ("uint64", "uint64_t"),
]
CONV_UNITS = ["mptcore/convert/data_convert_int.c", "mptcore/types/type_int.c"]


def queries(tier):
    qs = []
    for (nm, ty) in INT_SRC:
        qs.append(Q("int2int_" + nm, "C07/int2int.c", units=CONV_UNITS,
                    harness_defines={"SRC_T": ty, "SRC_FN": "mpt_data_convert_" + nm,
                                     "SRC_IN": "V_IN_" + ("U" if nm[0] == "u" else "I") + nm.lstrip("uint")},
                    unwind_default=17,
                    bounds="source value: all 2^w values of %s; target in {c,b,y,n,q,i,u,x,t,l}" % ty,
                    outside="vector targets"))
    for (kind, nm) in ((1, "float64"), (2, "float32"), (3, "int64"), (4, "uint64")):
        qs.append(Q("to_float_" + nm, "C07/float.c", units=CONV_UNITS + ["mptcore/convert/data_convert_float.c"], harness_defines={"KIND": kind},
                    unwind_default=10, bounds="source %s: every value (incl. NaN, infinities); target f or d" % nm,
                    outside="long double (not compiled in this tree); reading 'denotes the same number' for narrowing as: correctly rounded, never finite -> infinity"))
    TXT_UNITS = ["mptcore/convert/%s.c" % f for f in ("convert_string", "convert_number", "convert_int", "cdouble", "cfloat", "cldouble", "convert_key", "valfmt_get")] + [
        "mptcore/types/type_int.c"]
    for fmt in "yt":
        qs.append(Q("text2int_direct_" + fmt, "C07/text2int.c", units=TXT_UNITS, harness_defines={"FMT": "'%s'" % fmt, "DIRECT": 1}, unwind_default=50,
                    bounds="as text2int_%s, number parser (mpt_convert_number) called directly on text with 0..2 leading blanks" % fmt, outside="see text2int"))
    for fmt in "bynqiuxtl":
        qs.append(Q("text2int_" + fmt, "C07/text2int.c", units=TXT_UNITS,
                    harness_defines={"FMT": "'%s'" % fmt},
                    unwind_default=50,
                    bounds="any numeral: sign, magnitude 0..2^64-1 or beyond 64 bits, 0..2 leading blanks, 1..22 characters; target '%s'; C library parser = ISO C contract stub" % fmt,
                    outside="bases other than auto-detected; locale-specific parsing; the digits themselves are abstracted by the contract"))
    return qs
