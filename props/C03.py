# C03 Decoders are safe and honest on arbitrary bytes
ASSUMPTIONS = ["reference decoder include/cobs_ref.h (written from the framing rules, not from the implementation)",
               "COBS/R and ZPE+R: a zero inside the last block is the documented tail-inline form"]
CODEC = ["mptcore/convert/decode_cobs.c", "mptcore/convert/decode_cobs_zpe.c", "mptcore/message/message_read.c"]
DECS = [("cobs", "mpt_decode_cobs", "REF_COBS"), ("cobs_r", "mpt_decode_cobs_r", "REF_COBS_R"),
        ("zpe", "mpt_decode_cobs_zpe", "REF_ZPE"), ("zpe_r", "mpt_decode_cobs_zpe_r", "REF_ZPE_R")]


def queries(tier):
    n = 5 if tier == "quick" else 8
    qs = []
    for (nm, dec, var) in DECS:
        qs.append(Q("arbitrary_" + nm, "C03/arbitrary.c", units=CODEC,
                    harness_defines={"DEC": dec, "VARIANT": var, "N": n}, unwind_default=n + 3,
                    unwind={"ref_decode": 2 * n + 3, "judge": 2 * n + 3},
                    bounds="input 0..%d arbitrary bytes, delivered in two steps at every cut; resume after 'need more'" % n,
                    outside="inputs longer than %d bytes; more than two delivery steps; block codes above the input length are reachable only as incomplete frames" % n))
    return qs
