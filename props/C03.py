# C03 Decoders are safe and honest on arbitrary bytes
ASSUMPTIONS = ["reference decoder include/cobs_ref.h (written from the framing rules, not from the implementation)",
               "COBS/R and ZPE+R: a zero inside the last block is the documented tail-inline form"]
CODEC = ["mptcore/convert/decode_cobs.c", "mptcore/convert/decode_cobs_zpe.c", "mptcore/message/message_read.c"]
DECS = [("cobs", "mpt_decode_cobs", "REF_COBS"), ("cobs_r", "mpt_decode_cobs_r", "REF_COBS_R"),
        ("zpe", "mpt_decode_cobs_zpe", "REF_ZPE"), ("zpe_r", "mpt_decode_cobs_zpe_r", "REF_ZPE_R")]


def queries(tier):
    qs = []
    cfg = [(5, 0), (3, 1)] if tier == "quick" else [(8, 0), (6, 1)]
    for (nm, dec, var) in DECS:
        for (n, two) in cfg:
            qs.append(Q("arbitrary_%s_%s" % (nm, "2step" if two else "1call"), "C03/arbitrary.c", units=CODEC,
                        harness_defines={"DEC": dec, "VARIANT": var, "N": n, "TWO_STEP": two}, unwind_default=n + 2,
                        unwind={"ref_decode": 2 * n + 3, "judge": 2 * n + 3, "harness": n + 5, "intact": n + 5, "mpt_message_read": 3},
                        bounds="input 0..%d arbitrary bytes, %s" % (n, "delivered in two steps at every cut, resumed after 'need more'" if two else "one call"),
                        outside="inputs longer than %d bytes; more than two delivery steps" % n))
    for (nm, dec, var) in DECS:
        qs.append(Q("decstep_" + nm, "C03/decstep.c", units=CODEC,
                    harness_defines={"DEC": dec, "VARIANT": var}, unwind_default=6,
                    unwind={"harness": 16, "mpt_message_read": 3}, 
                    bounds="one decoder call from any resume state: block code 1..255, position 0..254; decoded window <= 3 bytes, slack 1..3, <= 3 new arbitrary input bytes",
                    outside="more than 3 new bytes per call in this shape; decoded windows above 3 bytes (no memory is proportional to code/position)"))
    for (nm, dec, var) in DECS:
        if tier == "quick" and nm != "cobs_r":
            continue
        qs.append(Q("decstep_preview_" + nm, "C03/decstep.c", units=CODEC,
                    harness_defines={"DEC": dec, "VARIANT": var, "PREVIEW": 1}, unwind_default=6,
                    unwind={"harness": 16, "mpt_message_read": 3}, timeout=900 if tier == "quick" else None,
                    bounds="as decstep, with a preview call (sourcelen 0, as issued by mpt_queue_peek) before the regular call: same delivery as without it",
                    outside="see decstep"))
    return qs
