# C15 Reference counts track handles exactly
ASSUMPTIONS = ["referents in the assignment query are harness metatypes that count addref/unref",
               "buffer lifetime observed through a managed ghost element (finalisation = destruction) plus CBMC's free/leak ledger",
               "reply contexts: see C12 (history with release in any order, heap ledger)"]


def queries(tier):
    k = 4 if tier == "quick" else 6
    ck = 4 if tier == "quick" else 6
    return [
        # reply context lifetime: the C12 history harness (heap ledger: use after release, double release, leak)
        Q("reply_context_history", "C12/ctx.c", units=["mptcore/event/reply_deferrable.c", "mptcore/event/reply_set.c",
                                                        "mptcore/message/message_id.c", "mptcore/misc/refcount.c"],
          harness_defines={"K": ck}, unwind_default=ck + 2, unwind={"mpt_message_buf2id": 10, "mpt_message_id2buf": 10},
          fp=[(r"reply\.send", ["h_send"]), (r"convertable\.convert", ["contextConv"]), (r"_vptr\)\.unref", ["contextUnref"]),
              (r"_vptr\)\.addref", ["contextRef"]), (r"_vptr\)\.defer", ["contextDefer"]), (r"_vptr\)\.reply", ["contextSet", "deferReply"])],
          flags=["--memory-leak-check"],
          bounds="reply context: histories of %d operations over {arm, reply, defer, deferred reply, release}; transport verdict symbolic" % ck,
          outside="see C12"),
        Q("refcount_kernel", "C15/refcount.c", units=["mptcore/misc/refcount.c"], unwind_default=2,
          bounds="counter: all 2^64 values; raise or lower", outside="-"),
        Q("metaref_assign", "C15/metaref.c", units=["mptcore/convert/data_converter.c", "mptcore/convert/data_convert_int.c", "mptcore/convert/data_convert_float.c", "mptcore/convert/data_convert_array.c", "mptcore/types/type_int.c", "mptcore/types/type_traits.c", "mptcore/misc/identifier.c", "mptcore/array/array_traits.c", "mptcore/meta/meta_reference_traits.c", "mptcore/event/command_traits.c", "mptcore/array/array_clone.c"], unwind_default=2,
          fp=[(r"_vptr\)\.addref", ["cm_addref"]), (r"_vptr\)\.unref", ["cm_unref"]), (r"convert", ["cm_conv"]), (r"harness", ["_mpt_metatype_wrap"])],
          bounds="slot empty/holding, new referent null/set, addref succeeding/failing", outside="other converter targets"),
        Q("buffer_handles", "C15/bufrefs.c", units=ARRAY_UNITS, harness_defines={"K": k}, unwind_default=k + 3, fp=BUF_FP,
          flags=["--memory-leak-check", "--max-field-sensitivity-array-size", "400"], stubs=["libc.c", "malloc_pages.c", "libc_loops.c"],
          unwind={"memcpy": 10, "memset": 10, "memmove": 10},
          bounds="histories of %d operations over {addref, unref, copy array handle, drop array handle}, up to 2 array handles plus raw handles" % k,
          outside="more than %d operations; metatype implementations geninfo/meta_buffer, rawdata, stream inputs" % k),
    ]
