# C15 Reference counts track handles exactly
ASSUMPTIONS = ["referents in the assignment query are harness metatypes that count addref/unref",
               "buffer lifetime observed through a managed ghost element (finalisation = destruction) plus CBMC's free/leak ledger",
               "reply contexts: see C12 (history with release in any order, heap ledger)"]


def queries(tier):
    k = 4 if tier == "quick" else 6
    return [
        Q("refcount_kernel", "C15/refcount.c", units=["mptcore/misc/refcount.c"], unwind_default=2,
          bounds="counter: all 2^64 values; raise or lower", outside="-"),
        Q("metaref_assign", "C15/metaref.c", units=["mptcore/convert/data_converter.c", "mptcore/convert/data_convert_int.c", "mptcore/convert/data_convert_float.c", "mptcore/convert/data_convert_array.c", "mptcore/types/type_int.c", "mptcore/types/type_traits.c", "mptcore/misc/identifier.c", "mptcore/array/array_traits.c", "mptcore/meta/meta_reference_traits.c", "mptcore/event/command_traits.c", "mptcore/array/array_clone.c"], unwind_default=2,
          fp=[(r"_vptr\)\.addref", ["cm_addref"]), (r"_vptr\)\.unref", ["cm_unref"]), (r"convert", ["cm_conv"]), (r"harness", ["_mpt_metatype_wrap"])],
          bounds="slot empty/holding, new referent null/set, addref succeeding/failing", outside="other converter targets"),
        Q("buffer_handles", "C15/bufrefs.c", units=ARRAY_UNITS, harness_defines={"K": k}, unwind_default=k + 3, fp=BUF_FP,
          flags=["--memory-leak-check", "--max-field-sensitivity-array-size", "400"], stubs=["libc.c", "malloc_pages.c", "libc_loops.c"],
          unwind={"memcpy": 10, "memset": 10, "memmove": 10},
          bounds="histories of %d operations over {addref, unref, copy array handle, drop array handle}, up to 2 array handles plus raw handles" % k,
          outside="more than %d operations; metatype implementations geninfo/meta_buffer, rawdata, stream inputs" % k),
    ]
