# C16 Names are stored and compared faithfully at every length
ASSUMPTIONS = ["content bytes fully symbolic (NUL bytes inside a name allowed, length explicit)"]


def queries(tier):
    sizes = [(16, 16), (16, 32), (32, 16)] if tier == "quick" else [(16, 16), (16, 32), (32, 16), (32, 32), (64, 16), (16, 64)]
    qs = []
    for (s, s2) in sizes:
        for op in ("SET", "COPY", "ZERO"):
            if op != "COPY" and s2 != 16:
                continue
            lmax = max(s, s2) - 4 + 3
            qs.append(Q("id_%s_%d_%d" % (op.lower(), s, s2), "C16/ident.c", units=["mptcore/misc/identifier.c"],
                        harness_defines={"OP": "OP_" + op, "S": s, "S2": s2, "V_NMAX": 4 * lmax + 16},
                        unwind_default=lmax + 3, flags=["--memory-leak-check"], stubs=["libc.c", "no_traits.c"],
                        bounds="storage %d (copy source %d); previous and new content length 0..%d (inline capacity %d) symbolic; content bytes symbolic" % (s, s2, lmax, s - 4),
                        outside="storage sizes not listed; lengths above %d (no branch depends on them below the 65535 limit)" % lmax))
    return qs
