# C02 Message stream integrity under arbitrary segmentation
ASSUMPTIONS = ["one message per query, two wire segments; ring offsets split by the driver", "stream/socket layers (mptio) are outside: I/O bound"]
U = ["mptcore/queue/%s.c" % f for f in "queue_push queue_recv queue_shift qpre qpost qpush qshift queue_crop queue_data queue_empty queue_get queue_set queue_align memrev".split()] + [
    "mptcore/message/message_get.c", "mptcore/message/message_read.c", "mptcore/message/memchr.c",
    "mptcore/convert/encode_cobs.c", "mptcore/convert/encode_cobs_r.c", "mptcore/convert/encode_cobs_zpe.c",
    "mptcore/convert/decode_cobs.c", "mptcore/convert/decode_cobs_zpe.c"]
FRAMINGS = [("cobs", "mpt_encode_cobs", "mpt_decode_cobs"), ("cobs_r", "mpt_encode_cobs_r", "mpt_decode_cobs_r"),
            ("zpe", "mpt_encode_cobs_zpe", "mpt_decode_cobs_zpe"), ("zpe_r", "mpt_encode_cobs_zpe_r", "mpt_decode_cobs_zpe_r")]


DECV = {"cobs": "REF_COBS", "cobs_r": "REF_COBS_R", "zpe": "REF_ZPE", "zpe_r": "REF_ZPE_R"}


def queries(tier):
    qs = []
    fr = FRAMINGS[:2] if tier == "quick" else FRAMINGS
    lmax = 3 if tier == "quick" else 4
    for (nm, enc, dec) in fr:
      for off in range(0, lmax + 2):
        qs.append(Q("recv_%s_off%d" % (nm, off), "C02/recv.c", units=[u for u in U if "queue_push" not in u and "encode_" not in u], harness_defines={"DEC": dec, "VARIANT": DECV[nm], "QMAX": lmax + 2, "LMAX": lmax, "OFF": off, "TWO_SEG": 1},
                    unwind_default=lmax + 3,
                    unwind={"mpt_memrev": 2, "mpt_memswap": 2, "memcpy": 10, "memmove": 10, "memset": 10, "mpt_message_read": 5,
                            "ref_decode": lmax + 2, "judge": 2 * lmax + 3, "mpt_decode_cobs.0": 6, "_decode.0": 6, "mpt_decode_cobs": lmax + 1, "_decode": lmax + 1, "mpt_decode_cobs_r": lmax + 1, "_decode_r": lmax + 1},
                    fp=[(r"_dec", [dec])], stubs=["libc.c", "libc_loops.c"], flags=["--max-field-sensitivity-array-size", "100"], regions=["C02_RECV_STALL_CODEBYTE"],
                    timeout=900 if tier == "quick" else None,
                    bounds="input ring of %d bytes, start offset by driver-side case split over all offsets (wrapped content included), 1..%d arbitrary bytes delivered in one or two segments at every cut, decoder at a frame start" % (lmax + 2, lmax),
                    outside="more than one frame; more than two segments; the sender side (mpt_queue_push) and the end-to-end pipe (measured: > 600 s / > 8 GB per offset pair); stream layers"))
    for (nm, enc, dec) in fr[:1] if tier == "quick" else fr:
        for prev in (0, 1, 2):
            for off in (range(0, 8) if tier == "thorough" else ((0, 3, 5, 7) if prev < 2 else (5, 6))):
                qs.append(Q("send_%s_prev%d_off%d" % (nm, prev, off), "C02/send.c", units=U,
                            harness_defines={"ENC": enc, "VARIANT": DECV[nm], "OFF": off, "PREV": prev, "QMAX": 8, "NMSG": 3}, unwind_default=8,
                            unwind={"mpt_memrev": 2, "mpt_memswap": 2, "memcpy": 12, "memmove": 12, "memset": 12, "ref_decode": 9, "harness": 10,
                                    "mpt_encode_cobs": 6, "mpt_encode_cobs_zpe": 6, "mpt_memrchr": 10, "mpt_memchr": 10, "memchr": 10},
                            fp=[(r"_enc", [enc])], stubs=["libc.c", "libc_loops.c", "abort.c"], flags=["--max-field-sensitivity-array-size", "300"], timeout=600,
                            bounds="output ring of 8 bytes starting at offset %d%s; one message of 0..3 symbolic bytes in 1-2 pushes at every split, then terminated" % (off, ", %d earlier empty frame(s) still queued" % prev if prev else ""),
                            outside="messages above 3 bytes; more than one earlier frame; capacity exhaustion; stream layers"))
    for off in range(6):
        qs.append(Q("shift_off%d" % off, "C02/shift.c", units=["mptcore/queue/queue_shift.c", "mptcore/queue/queue_crop.c", "mptcore/queue/queue_data.c", "mptcore/queue/memrev.c"],
                    harness_defines={"QMAX": 6, "OFF": off}, unwind_default=8, stubs=["libc.c", "libc_loops.c"], flags=["--max-field-sensitivity-array-size", "100"],
                    unwind={"memcpy": 10, "memmove": 10, "memset": 10, "mpt_memrev": 4, "mpt_memswap": 4},
                    bounds="one mpt_queue_shift on a 6-byte input ring at offset %d (driver-side case split): fill, bytes and reader offsets (processed, message start, decoded length) symbolic, consistent" % off,
                    outside="larger rings; inconsistent reader states"))
    return qs
