# C01 Message framing round-trip for every codec
ASSUMPTIONS = ["output capacity schedule: one symbolic initial grant, then the full space (2N+6 bytes) on MissingBuffer/short count",
               "decoder receives the finished frame as one contiguous region (segmented delivery: C02/C03)"]
CODEC = ["mptcore/convert/%s.c" % f for f in "encode_cobs encode_cobs_r encode_cobs_zpe decode_cobs decode_cobs_zpe".split()] + [
    "mptcore/message/message_read.c", "mptcore/message/memchr.c"]
FRAMINGS = [("cobs", "mpt_encode_cobs", "mpt_decode_cobs"), ("cobs_r", "mpt_encode_cobs_r", "mpt_decode_cobs_r"),
            ("zpe", "mpt_encode_cobs_zpe", "mpt_decode_cobs_zpe"), ("zpe_r", "mpt_encode_cobs_zpe_r", "mpt_decode_cobs_zpe_r")]


def queries(tier):
    n = 4 if tier == "quick" else 6
    qs = []
    for (nm, enc, dec) in FRAMINGS:
        qs.append(Q("roundtrip_" + nm, "C01/roundtrip.c", units=CODEC,
                    harness_defines={"ENC": enc, "DEC": dec, "N": n, "PUSHES": 2 if tier == "quick" else 3},
                    unwind_default=n + 4, unwind={"push": 3, "harness": 2 * n + 12},
                    bounds="message 0..%d bytes, every byte value; 2 pushes (thorough: 3) at all split points; initial capacity 0..%d symbolic then full" % (n, 2 * n + 6),
                    outside="messages longer than %d bytes in this shape (block boundaries at 254/223: step harness)" % n))
    return qs
