# C01 Message framing round-trip for every codec
ASSUMPTIONS = ["output capacity schedule: one symbolic initial grant, then the full space (2N+6 bytes) on MissingBuffer/short count",
               "decoder receives the finished frame as one contiguous region (segmented delivery: C02/C03)"]
CODEC = ["mptcore/convert/%s.c" % f for f in "encode_cobs encode_cobs_r encode_cobs_zpe decode_cobs decode_cobs_zpe".split()] + [
    "mptcore/message/message_read.c", "mptcore/message/memchr.c"]
FRAMINGS = [("cobs", "mpt_encode_cobs", "mpt_decode_cobs"), ("cobs_r", "mpt_encode_cobs_r", "mpt_decode_cobs_r"),
            ("zpe", "mpt_encode_cobs_zpe", "mpt_decode_cobs_zpe"), ("zpe_r", "mpt_encode_cobs_zpe_r", "mpt_decode_cobs_zpe_r")]


def py_gen(q, wd):
    """Regenerate the C translation of mpt.py:encode_cobs and validate it against the real Python function."""
    import os, subprocess, sys, random
    out = os.path.join(wd, "py_gen.c")
    r = subprocess.run([sys.executable, os.path.join(VERIF, "engine", "py2c.py"), os.path.join(REPO, "mpt.py"), "encode_cobs", out],
                       stdout=subprocess.PIPE, stderr=subprocess.STDOUT)
    if r.returncode:
        raise RuntimeError("py2c: " + r.stdout.decode())
    defs = {"PY_GEN": '"%s"' % out}
    # translator validation: generated C (gcc) vs. the real Python function on concrete messages
    exe = os.path.join(wd, "py_val.exe")
    cc = subprocess.run(["gcc", "-w", "-DVERIF_REPLAY", "-DPY_VALIDATE", "-DPREFIX=600", "-DT=8", '-DPY_GEN="%s"' % out, "-I", os.path.join(VERIF, "include"),
                         "-o", exe, os.path.join(VERIF, "harness", "C01", "python.c")], stdout=subprocess.PIPE, stderr=subprocess.STDOUT)
    if cc.returncode:
        raise RuntimeError("py2c validation build failed: " + cc.stdout.decode()[-500:])
    import importlib.util
    spec = importlib.util.spec_from_file_location("mpt_client", os.path.join(REPO, "mpt.py"))
    mod = importlib.util.module_from_spec(spec)
    try:
        spec.loader.exec_module(mod)
    except SystemExit:
        pass
    rnd = random.Random(1)
    msgs = [bytes(), bytes([0]), bytes([1]), bytes([0, 0]), bytes([5, 0, 7])] + [bytes([1 + (i % 250) for i in range(n)]) for n in (252, 253, 254, 255, 256, 508, 509)]
    msgs += [bytes(rnd.choice([0, 1, 2, 255]) for _ in range(rnd.randint(0, 40))) for _ in range(40)]
    for m in msgs:
        try:
            want = bytes(mod.encode_cobs(bytearray(m))).hex()
        except Exception as e:   # IndexError etc. in the Python original
            want = "FAULT"
        got = subprocess.run([exe, m.hex()], stdout=subprocess.PIPE).stdout.decode().strip()
        if got != want:
            raise RuntimeError("py2c translation disagrees with mpt.py on message %s: C %s, Python %s" % (m.hex()[:40], got[:60], want[:60]))
    return defs


def queries(tier):
    n = 4 if tier == "quick" else 5
    qs = []
    for (nm, enc, dec) in FRAMINGS:
        qs.append(Q("roundtrip_" + nm, "C01/roundtrip.c", units=CODEC,
                    harness_defines={"ENC": enc, "DEC": dec, "N": n, "PUSHES": 2 if tier == "quick" else 3},
                    unwind_default=n + 4, unwind={"push": 3, "harness": 2 * n + 12},
                    bounds="message 0..%d bytes, every byte value; 2 pushes (thorough: 3) at all split points; initial capacity 0..%d symbolic then full" % (n, 2 * n + 6),
                    outside="messages longer than %d bytes in this shape (block boundaries at 254/223: step harness)" % n))
    qs.append(Q("encoder_step_cobs", "C01/encstep.c", units=["mptcore/convert/encode_cobs.c", "mptcore/message/memchr.c"], unwind_default=5,
                unwind={"harness.1": 270, "harness.3": 270, "harness": 5}, flags=["--max-field-sensitivity-array-size", "300"], stubs=["libc.c"], timeout=900,
                bounds="plain COBS encoder at the real block size: any state (0..3 finished bytes, open block of 0..254), one push of 1..3 arbitrary bytes, ample space",
                outside="pushes above 3 bytes per call from an arbitrary state (round trip covers whole messages up to N); capacity-limited pushes (round trip); COBS/R, ZPE step functions"))
    if tier == "thorough":
        for (nm, d) in (("step_zpe", {"ZPE": 1}), ("terminate_cobs_r", {"TERMINATE": 1, "TAIL_INLINE": 1}), ("terminate_zpe", {"TERMINATE": 1, "ZPE": 1}),
                        ("terminate_zpe_r", {"TERMINATE": 1, "ZPE": 1, "TAIL_INLINE": 1})):
            qs.append(Q("encoder_" + nm, "C01/encstep.c", units=["mptcore/convert/encode_cobs.c", "mptcore/convert/encode_cobs_r.c", "mptcore/convert/encode_cobs_zpe.c", "mptcore/message/memchr.c"],
                        harness_defines=d, unwind_default=5, unwind={"harness.1": 270, "harness.2": 270, "harness.3": 270, "harness": 5},
                        flags=["--max-field-sensitivity-array-size", "300"], stubs=["libc.c"], timeout=1200,
                        bounds="encoder %s at the real block size from any state (0..3 finished bytes, open block up to the maximum): %s" % (nm, "termination" if "TERMINATE" in d else "push of 1..3 arbitrary bytes"),
                        outside="see encoder_step_cobs"))
    qs.append(Q("encoder_terminate_cobs", "C01/encstep.c", units=["mptcore/convert/encode_cobs.c", "mptcore/message/memchr.c"], harness_defines={"TERMINATE": 1}, unwind_default=5,
                unwind={"harness.1": 270, "harness.2": 270, "harness": 5}, flags=["--max-field-sensitivity-array-size", "300"], stubs=["libc.c"], timeout=600,
                bounds="plain COBS encoder: message termination from any state (0..3 finished bytes already in the buffer, open block of 0..254)", outside="COBS/R, ZPE terminations from arbitrary states"))
    for pre in ((0, 254) if tier == "quick" else (0, 254, 255, 258)):
        qs.append(Q("python_encode_cobs_pre%d" % pre, "C01/python.c", units=[], harness_defines={"PREFIX": pre, "T": 4},
                    unwind_default=pre + 20, unwind={"ref_decode.0": 12 + max(0, pre - 254), "ref_decode.1": 3, "ref_decode.2": 10 + max(0, pre - 254), "py_encode_cobs": 2, "py_encode_cobs.4": pre + 6}, cxx=py_gen, stubs=[], flags=["--max-field-sensitivity-array-size", "300"],
                    bounds="mpt.py encode_cobs (AST translated per run, validated against the Python original on 52 concrete messages): %d concrete non-zero bytes + 0..4 symbolic bytes; decoded with the reference decoder" % pre,
                    outside="other prefix lengths; str inputs (utf-8 conversion); encode_command", timeout=600))
    return qs
