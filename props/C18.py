# C18 Visible line parts partition the data exactly
ASSUMPTIONS = ["partition query: mpt_linepart_code replaced by a contract stub returning an arbitrary non-zero code (encoder verified in the code query, fraction values in the thorough fractions query)",
               "input values and range bounds are finite, non-NaN doubles with min <= max",
               "CBMC's IEEE-754 double model (round to nearest)"]
U = ["mptplot/values/linepart_linear.c", "mptplot/values/linepart_code.c", "mptplot/values/linepart_join.c"]


def queries(tier):
    n = 4 if tier == "quick" else 6
    return [
        Q("partition_n3", "C18/partition.c", units=[("mptplot/values/linepart_linear.c", {"mpt_linepart_code": "verif_code_stub"}), U[1], U[2]],
          harness_defines={"N": 3, "MAGNITUDE": "1e300"}, unwind_default=5,
          bounds="1..3 finite doubles (|x| <= 1e300), every range min <= max; documented driver loop", outside="see partition", timeout=600),
        Q("partition", "C18/partition.c", units=[("mptplot/values/linepart_linear.c", {"mpt_linepart_code": "verif_code_stub"}), U[1], U[2]],
          harness_defines={"N": n, "MAGNITUDE": "1e300"}, unwind_default=n + 2,
          bounds="1..%d finite doubles (|x| <= 1e300), every range min <= max; documented driver loop" % n,
          outside="more than %d points; non-finite values; runs near the 65535 per-part limit" % n, timeout=600 if tier == "quick" else None),
    ] + ([] if tier == "quick" else [
        Q("fractions", "C18/partition.c", units=U, harness_defines={"N": 2, "MAGNITUDE": "1e300", "FRACTIONS": 1}, unwind_default=4,
          bounds="1..2 finite doubles, every range: stored cut/trim fraction vs. recomputed crossing", outside="-", timeout=1500, backend=["--z3"]),
    ]) + [
        Q("join", "C18/join.c", units=U, unwind_default=2, bounds="both parts fully symbolic (4 x 16 bit each)", outside="-"),
        Q("code", "C18/code.c", units=U, unwind_default=2, bounds="every non-NaN double", outside="-"),
    ]
