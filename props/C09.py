# C09 Configuration text is read back faithfully
ASSUMPTIONS = ["path storage functions bound to the flat path model PM (include/stubs/pathmodel.c, 32 bytes); the parser units are real",
               "one parser call per query ('*' section-prefix format with default delimiters); the driver loop, the other two styles and tree building are outside the built queries",
               "mpt_log is an empty stub"]
REN = {"mpt_path_addchar": "verif_pm_addchar", "mpt_path_delchar": "verif_pm_delchar", "mpt_path_valid": "verif_pm_valid",
       "mpt_path_add": "verif_pm_add", "mpt_path_invalidate": "verif_pm_invalidate"}
U = [("mptcore/parse/%s.c" % f, REN) for f in "parse_format_pre parse_option parse_data parse_getchar".split()] + [
    "mptcore/parse/%s.c" % f for f in "parse_nextvis parse_endline parse_ncheck parse_accept".split()]
COMMON = dict(units=U, fp=[(r"getc", ["h_getc"])], stubs=["libc.c", "pathmodel.c"], flags=["--max-field-sensitivity-array-size", "100"])


def queries(tier):
    qs = []
    n = 6 if tier == "quick" else 8
    for (nm, d, bd) in (("value_plain", {"N": n}, "%d symbolic characters over {a, b, space, tab, newline, #} after the option name" % n),
                        ("value_quoted", {"N": n - 1, "QUOTED": 1}, "fully quoted value of 0..%d characters over {a, space, #}" % (n - 1))):
        qs.append(Q(nm, "C08/data.c", harness_defines=d, unwind_default=n + 5, unwind={"memchr": 6, "verif_pm_add": 34},
                    bounds="one mpt_parse_data call: " + bd,
                    outside="option/section names and nesting (format layer: C08 query), partially quoted values, escaped quotes, the enc/sep styles, values beyond %d characters, tree building (node_append)" % n,
                    timeout=600, **COMMON))
    shapes = [(0, 0, 1), (2, 1, 1), (1, 0, 0), (2, 0, 1)] if tier == "quick" else [(x, y, z) for x in (0, 1, 2) for y in (0, 1) for z in (0, 1)]
    for (nb, na, vl) in shapes:
        qs.append(Q("option_line_b%d_a%d_v%d" % (nb, na, vl), "C08/pre.c", harness_defines={"MODE": 3, "NB": nb, "NA": na, "VL": vl}, unwind_default=10,
                    unwind={"memchr": 6, "verif_pm_add": 34},
                    bounds="option line 'k' + %d blank(s) + '=' + %d blank(s) + %d value character (symbolic a/b; second blank space or tab) + newline through mpt_parse_format_pre: name and value read back" % (nb, na, vl),
                    outside="longer names/values at the format layer (value scanner: value_plain/value_quoted), sections, nesting, other styles, tree building", timeout=300, **COMMON))
    for seq in (((0, 1, 0), (1, 1, 0)) if tier == "quick" else [(x, y, z) for x in (0, 1) for y in (0, 1) for z in (0, 1)]):
      qs.append(Q("node_append_order_%d%d%d" % seq, "C09/append.c", harness_defines={"NAMES": "{%d,%d,%d}" % seq},
                units=["mptcore/parse/node_append.c", "mptcore/config/path_last.c"] + ["mptcore/node/%s.c" % f for f in "node_new node_destroy node_clear node_unlink gnode_after gnode_before gnode_pos node_locate".split()] + ["mptcore/misc/identifier.c"],
                unwind_default=6, flags=["--memory-leak-check", "--max-field-sensitivity-array-size", "200"],
                fp=[(r"getnode", ["verif_gnode_pos_u", "node_locate"]), (r"_vptr\)\.unref", ["h_none"])], stubs=["libc.c", "libc_loops.c"],
                unwind={"memcpy": 20, "memset": 60, "memmove": 20, "strlen": 4},
                bounds="three option events with the name sequence %s (0 = a, 1 = b; driver-side case split) appended under one section node" % (seq,),
                outside="values (mpt_meta_new), nested sections, more than three events"))
    return qs
