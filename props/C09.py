# C09 Configuration text is read back faithfully
ASSUMPTIONS = ["path storage functions bound to the flat path model PM (include/stubs/pathmodel.c, 32 bytes); the parser units are real",
               "one parser call per query ('*' section-prefix format with default delimiters); the driver loop, the other two styles and tree building are outside the built queries",
               "mpt_log is an empty stub"]
REN = {"mpt_path_addchar": "verif_pm_addchar", "mpt_path_delchar": "verif_pm_delchar", "mpt_path_valid": "verif_pm_valid",
       "mpt_path_add": "verif_pm_add", "mpt_path_invalidate": "verif_pm_invalidate"}
U = [("mptcore/parse/%s.c" % f, REN) for f in "parse_format_pre parse_option parse_data parse_getchar".split()] + [
    "mptcore/parse/%s.c" % f for f in "parse_nextvis parse_endline parse_ncheck parse_accept".split()]
COMMON = dict(units=U, fp=[(r"getc", ["h_getc"])], stubs=["libc.c", "pathmodel.c"], flags=["--max-field-sensitivity-array-size", "100"])


def queries(tier):
    qs = []
    variants = [(0, 0, 1)] if tier == "quick" else [(p, c, 3) for p in (0, 1, 2) for c in (0, 1)]
    for (pre, com, vl) in variants:
        qs.append(Q("format_pre_readback_p%d_c%d" % (pre, com), "C08/pre.c", harness_defines=dict({"MODE": 2, "PRELINE": pre, "COMMENT": com, "VLMAX": vl}, **({"LEAD": 0, "NLMAX": 1, "AFTERMAX": 1} if tier == "quick" else {})),
                    unwind_default=10 if tier == "quick" else 16, unwind={"memchr": 6, "verif_pm_add": 34, "blanks": 3, "harness": 4},
                    bounds="one option line from symbolic parts: %s, 0..1 leading blank, name of 1..2 chars {a,b}, 0..2 blanks (space/tab) on each side of '=', value of 0..%d chars {a,b,space} (no outer blanks), 0..1 trailing blank%s" % (
                        {0: "no preceding line", 1: "preceding blank line", 2: "preceding comment line"}[pre], vl, ", trailing comment" if com else ""),
                    outside="quoted values, sections, nesting, the other two styles, longer values, tree building (node_append)", timeout=600, **COMMON))
    return qs
