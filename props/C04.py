# C04 Copy-on-write arrays behave as independent values
ASSUMPTIONS = ["raw byte buffers (typed buffers: C05)", "direct mpt_buffer_* calls only on a private, mutable buffer (their callers' duty)",
               "allocation sizes restricted (and asserted) to 128/256/384 bytes: malloc_pages.c"]
OPS = ["APPEND", "INSERT", "SLICE", "RESERVE", "REDUCE", "BUF_SET", "BUF_CUT", "BUF_INSERT", "CLONE0"]
DIRECT = ("BUF_SET", "BUF_CUT", "BUF_INSERT")


SPLIT = ("INSERT", "SLICE")


def queries(tier):
    qs = []
    combos = [(0, 2), (2, 1), (5, 3), (3, 0)] if tier == "quick" else [(p, l) for p in range(0, 7) for l in range(0, 5)]
    for op in OPS:
        for (sh, fl, tag) in ((0, 0, ""), (1, 0, "_shared"), (0, 1, "_immutable"), (1, 2, "_shared_nocopy")):
            if op in DIRECT and (sh or fl):
                continue
            if tier == "quick" and tag == "_shared_nocopy" and op not in ("APPEND", "SLICE"):
                continue
            variants = [("", {}, "position 0..6 and length 0..4 symbolic")]
            if op in SPLIT:
                variants = [("_p%d_l%d" % (p, l), {"POS_C": p, "LEN_C": l}, "position %d, length %d (driver-side case split)" % (p, l)) for (p, l) in combos]
                if sh or fl or op == "INSERT":
                    # detach path (new buffer + copy): content length split as well
                    variants = [("_u%d_p%d_l%d" % (u, p, l), {"USED_C": u, "POS_C": p, "LEN_C": l},
                                 "content length %d, position %d, length %d (driver-side case split); bytes symbolic" % (u, p, l))
                                for u in ((1, 3) if tier == "quick" else (0, 1, 2, 3, 4)) for (p, l) in combos]
            for (vt, vd, vb) in variants:
                d = {"OP": "OP_" + op, "SHARED": sh, "FLAGS": fl}
                d.update(vd)
                qs.append(Q("cow_%s%s%s" % (op.lower(), tag, vt), "C04/cow.c", units=ARRAY_UNITS,
                            harness_defines=d, unwind_default=16, fp=BUF_FP,
                            flags=["--memory-leak-check", "--max-field-sensitivity-array-size", "400"],
                            stubs=["libc.c", "malloc_pages.c", "libc_loops.c", "no_traits.c"],
                            unwind={"memcpy": 70, "memmove": 70, "memset": 70},
                            bounds="content 0..4 bytes symbolic, %s, data symbolic; buffer %s%s" % (
                                vb, "shared by a second handle" if sh else "private", {0: "", 1: ", immutable", 2: ", no-copy"}[fl]),
                            outside="contents above 4 bytes; growth beyond one allocation page; typed buffers; histories"))
    return qs
