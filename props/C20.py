# C20 Layout object properties round-trip and do not interfere
ASSUMPTIONS = ["source values come from a contract-stub convertable (answers exactly one held type)", "NaN sources excluded (NaN != NaN)",
               "kinds covered: line (8 scalar properties), axis (9 scalar properties, sequences of set calls); colour text parse/print; other kinds listed as outside in DESIGN.md"]
U = ["mptplot/layout/line_property.c", "mptplot/layout/lattr_set.c", "mptplot/layout/color_set.c", "mptplot/layout/color_parse.c", "mptplot/layout/color_html.c", "mptcore/convert/convert_int.c",
     "mptcore/object/property_match.c", "mptcore/types/value_compare.c", "mptcore/types/type_traits.c",
     "mptcore/misc/identifier.c", "mptcore/array/array_traits.c", "mptcore/meta/meta_reference_traits.c", "mptcore/event/command_traits.c",
     "mptcore/array/array_clone.c"]


def queries(tier):
    col = Q("colour_text", "C20/color.c", units=["mptplot/layout/color_parse.c", "mptplot/layout/color_html.c", "mptplot/layout/color_set.c", "mptcore/convert/convert_int.c", "mptcore/types/type_traits.c", "mptcore/misc/identifier.c", "mptcore/array/array_traits.c", "mptcore/meta/meta_reference_traits.c", "mptcore/event/command_traits.c", "mptcore/array/array_clone.c"],
            harness_defines={"TL": 5 if tier == "quick" else 8}, unwind_default=12, stubs=["libc.c"], flags=["--max-field-sensitivity-array-size", "100"],
            bounds="colour text of <= %d characters over {#,0,8,f,a,g,space,NUL}" % (5 if tier == "quick" else 8), outside="colour names beyond the alphabet; printing")
    UA = ["mptplot/layout/axis_property.c", "mptplot/layout/string_set.c"] + [u for u in U if "line_property" not in u and "lattr" not in u and "color" not in u]
    ax = [Q("axis_props_%dstep" % n, "C20/axis.c", units=UA, unwind_default=16, fp=[(r"convert", ["h_conv"])], harness_defines={"STEPS": n, "V_NMAX": 128},
            unwind={"harness": 44, "step": 44, "strcmp": 12, "strcasecmp": 12, "strncasecmp": 5, "strlen": 12, "memcmp": 44, "memcpy": 44, "mpt_axis_get": 12, "mpt_property_match": 12},
            flags=["--max-field-sensitivity-array-size", "100"], stubs=["libc.c"],
            bounds="axis object bytes fully symbolic (title pointer NULL); %d consecutive set calls, each: property in {begin,end,tlen,exp,intv,sub,dec,lpos,tpos}; "
                   "source holds one of d/f/n/y/c/k/s (text of <= 4 symbolic characters or NULL) with a symbolic value, an empty value, or reset (NULL source)" % n,
            outside="title (heap string), generic assignment, alias names other than the ones used; kinds text/graph/world")
          for n in ((1, 2) if tier == "quick" else (1, 2, 3))]
    CU = col.units
    hexq = [Q("colour_html_%d" % n, "C20/color.c", units=CU, harness_defines={"HEXFORM": n}, unwind_default=12, stubs=["libc.c"], flags=["--max-field-sensitivity-array-size", "100"],
              bounds="'#' followed by %d symbolic hex digits over {0,8,f,a,F,3,9,C}: components equal the digit pairs (alpha 255 when absent)" % n,
              outside="other digits; colour names; printing") for n in (6, 8)]
    return [col] + hexq + ax + [
        Q("line_scalar_props", "C20/line.c", units=U, unwind_default=16, fp=[(r"convert", ["h_conv"])],
          unwind={"harness": 30, "strcmp": 8, "strcasecmp": 8, "strncasecmp": 8, "strlen": 8, "memcmp": 30, "mpt_line_get": 12, "mpt_property_match": 12},
          flags=["--max-field-sensitivity-array-size", "100"], stubs=["libc.c"],
          bounds="line object bytes fully symbolic; property in {x1,x2,y1,y2,width,style,symbol,size}; source holds one of f/d/y/i with a symbolic value, an empty value, or reset (NULL source)",
          outside="colour property, generic assignment, case variants/prefix names; kinds axis/text/graph/world"),
    ]
