# C17 Fragmented messages read like contiguous ones
MSG = ["mptcore/message/%s.c" % f for f in "message_read message_argv memchr memfcn memstr memtok memcpy message_get".split()]
ARR = ["mptcore/message/message_append.c", "mptcore/array/array_append.c", "mptcore/array/array_insert.c",
       "mptcore/array/buffer_alloc.c", "mptcore/array/buffer_insert.c", "mptcore/array/array_clone.c",
       "mptcore/misc/refcount.c", "mptcore/queue/queue_data.c", "mptcore/array/buffer_set.c"]
FNS = ["READ", "LENGTH", "MEMCHR", "MEMFCN", "MEMSTR", "MEMTOK", "ARGV", "MEMCPY", "APPEND", "APPEND0", "GET"]
FP = [(r"mpt_memfcn|mpt_memrfcn", ["is_tok", "notSpace", "memchr_wrap"]),
      ] + BUF_FP


def UNW(nb):
    frag, byte = 4 + 2, nb + 3
    u = {"harness": nb + 4, "build": nb + 4, "memchr": byte, "memcpy": byte, "memset": byte, "memmove": byte}
    for f in ("mpt_memchr", "mpt_memrchr", "mpt_memfcn", "mpt_memrfcn", "mpt_memtok", "nextChar",
              "mpt_message_argv", "mpt_message_read", "mpt_message_length", "mpt_message_append"):
        u[f] = max(frag, byte)
    u["mpt_memcpy"] = nb + 4 + 3 + 3
    u["mpt_memtok"] = nb + 4 + 3
    return u


def queries(tier):
    nb = 4 if tier == "quick" else 6
    qs = []
    for fn in FNS:
        d = {"FN": "F_" + fn, "NB": nb}
        if fn == "APPEND0":
            d = {"FN": "F_APPEND", "NB": nb, "APPEND_NO_CONT": 1}
        if fn == "ARGV":
            d["NB"] = nb - 1
            d["ARGV_STEPS"] = 2 if tier == "quick" else 3
        if fn in ("MEMTOK", "ARGV"):
            d["ALPHABET"] = "{'a',' ',':','#','\\'','\\\\','\\n',0}"
        qs.append(Q("frag_" + fn.lower(), "C17/frag.c", units=MSG + ARR + ["mptcore/queue/queue_data.c"][:0],
                    harness_defines=d, unwind_default=nb + 9, stubs=["libc.c", "no_traits.c"] + (["libc_loops.c"] if fn.startswith("APPEND") else []),
                    regions=["C17_ARGV_QUOTE_SPLIT"] if fn == "ARGV" else [], fp=FP, unwind=UNW(nb),
                    bounds="string length 0..%d, every byte value%s, 4 fragments at all cut points incl. empty fragments" % (
                        nb, " (alphabet {a,space,:,#,',\\\\,\\n,NUL} for token functions)" if "ALPHABET" in d else ""),
                    outside="strings longer than %d bytes; more than 4 fragments" % nb))
    return qs
