# scratch experiments (not a property)
def queries(tier):
    qs = []
    for (nm, d) in (("conc", {"CONC": 1}), ("conc_used", {"CONC": 1, "USED": 1}), ("sym", {}), ("conc_typed_used", {"CONC": 1, "USED": 1, "TYPED": 1})):
        qs.append(Q("slice_min_" + nm, "X/slice_min.c", units=ARRAY_UNITS, harness_defines=d,
                    unwind_default=11, fp=BUF_FP, stubs=["libc.c", "malloc_pages.c", "libc_loops.c"], unwind={"memcpy": 34, "memmove": 34, "memset": 34}, witness=[], flags=["--max-field-sensitivity-array-size", "400"]))
    return qs
