ASSUMPTIONS=[]
def queries(tier):
    import importlib
    SU = ["mptcore/config/%s.c" % f for f in "config_global node_assign node_query path_set path_next path_fini".split()] + [
        "mptcore/node/%s.c" % f for f in "node_new node_destroy node_clear node_unlink gnode_after gnode_before gnode_pos node_locate".split()] + [
        "mptcore/misc/identifier.c", "mptcore/array/array_clone.c"]
    qs=[]
    for (nm, sq, ops) in (("two", "{0,1,0}", "{0,0,2}"),):
        qs.append(Q("st_"+nm, "C10/store.c", units=SU, harness_defines={"SEQ": sq, "OPS": ops, "NSTEP": 3, "V_NMAX": 32},
                    unwind_default=5, flags=["--max-field-sensitivity-array-size", "200"],
                    fp=[(r"getnode", ["verif_gnode_pos_u", "node_locate"]), (r"^collectionEach", ["h_item"]), (r"^mpt_(array_clone|path_fini):", ["h_buf_none"]),
                        (r"^harness: .*vm\._vptr\)\.unref", ["configUnref"]), (r"^(configRemove|mpt_node_assign|mpt_node_destroy): .*unref", ["h_unref"]),
                        (r"^configAssign: .*convert", ["h_conv"]), (r"^h_gconv", ["configConv"]), (r"^configQuery: .*fcn", ["h_handler"]),
                        (r"\.query\)", ["configQuery"]), (r"\.assign\)", ["configAssign"]), (r"\.remove\)", ["configRemove"])],
                    stubs=["libc.c", "libc_loops.c", "no_traits.c", "malloc_pool.c"], unwind={"memcpy": 20, "memset": 60, "memmove": 20, "strlen.0": 12, "strncmp.0": 8, "strcmp.0": 8, "strncmp": 8, "strcmp": 8, "harness": 8, "free": 18, "v_pool_live": 18, "calloc": 162},
                    timeout=100, bounds="x", outside="x"))
    return qs
