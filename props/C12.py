# C12 Each request is answered at most once, to the right requester
ASSUMPTIONS = ["mpt_log is an empty stub (formatting is not the subject)",
               "transport send callback = harness recorder returning success/failure nondeterministically",
               "users arm a request only when none is outstanding (protocol of connection_dispatch.c)"]
CTX_FP = [(r"reply\.send", ["h_send"]),
          (r"convertable\.convert", ["contextConv"]), (r"_vptr\)\.unref", ["contextUnref"]),
          (r"_vptr\)\.addref", ["contextRef"]), (r"_vptr\)\.reply\)\(def|harness.*def.*reply", ["deferReply"]),
          (r"_vptr\)\.defer", ["contextDefer"]), (r"_vptr\)\.reply", ["contextSet", "deferReply"])]


def queries(tier):
    k = 4 if tier == "quick" else 6
    ctx_units = ["mptcore/event/reply_deferrable.c", "mptcore/event/reply_set.c", "mptcore/message/message_id.c", "mptcore/misc/refcount.c"]
    wide = Q("ctx_history_wide_id", "C12/ctx.c", units=ctx_units, harness_defines={"K": 3, "IDLEN": 6}, unwind_default=8,
             unwind={"mpt_message_buf2id": 10, "mpt_message_id2buf": 10}, fp=CTX_FP, flags=["--memory-leak-check"],
             bounds="histories of 3 operations, request id of 6 bytes (stored behind the 4 inline id bytes)", outside="see ctx_history")
    return [wide,
        Q("id_codec", "C12/id.c", units=["mptcore/message/message_id.c"], unwind_default=14,
          bounds="id: all 2^64 values; header width 0..9", outside="widths above 9"),
        Q("ctx_history", "C12/ctx.c", units=["mptcore/event/reply_deferrable.c", "mptcore/event/reply_set.c",
                                              "mptcore/message/message_id.c", "mptcore/misc/refcount.c"],
          harness_defines={"K": k}, unwind_default=k + 2, unwind={"mpt_message_buf2id": 10, "mpt_message_id2buf": 10},
          fp=CTX_FP, flags=["--memory-leak-check"],
          bounds="histories of %d operations over {arm, reply, defer, deferred reply (message/default), release}; id width 2; transport verdict symbolic per send" % k,
          outside="more than %d operations; two contexts; stream/connection layers (I/O bound)" % k),
    ]
