# C19 Value generators follow the iterator protocol and their formulas
ASSUMPTIONS = ["generators built through their C constructors with concrete bounds (linear: 0..n-1 step 1; boundary: 10/20/30), element count symbolic",
               "text descriptions: the linear/boundary profile forms with the number reader as a contract stub; mpt_iterator_create and the poly/values/file generators are outside the built queries"]
U = ["mptplot/values/iterator_linear.c", "mptplot/values/iterator_boundary.c", "mptplot/values/iterator_factor.c"]
FP = [(r"convertable\.convert", ["iterConv", "iterBoundaryConv", "iterFactorConv"]), (r"_vptr\)\.value", ["iterValue", "iterBoundaryValue", "iterFactorValue"]),
      (r"_vptr\)\.advance", ["iterAdvance", "iterBoundaryAdvance", "iterFactorAdvance"]), (r"_vptr\)\.reset", ["iterReset", "iterBoundaryReset", "iterFactorReset"]),
      (r"_vptr\)\.clone", ["iterClone", "iterBoundaryClone", "iterFactorClone"]), (r"_vptr\)\.unref", ["iterUnref", "iterBoundaryUnref", "iterFactorUnref"])]


def queries(tier):
    k = 5 if tier == "quick" else 8
    qs = []
    for (kind, nm) in ((1, "linear"), (2, "boundary"), (3, "factor")):
        qs.append(Q("protocol_" + nm, "C19/protocol.c", units=U,
                    harness_defines={"KIND": kind, "K": k, "NMAX": 4}, unwind_default=k + 2, fp=FP,
                    flags=["--memory-leak-check"], stubs=["libc.c", "c19_unused.c"],
                    bounds="element count 2..4 symbolic; %d calls from {value, advance, reset, clone-and-switch}" % k,
                    outside="more than %d calls; symbolic bounds (floating-point formulas); other generator kinds" % k))
    cases = [("0.0", "1.0", "1.0", 2), ("2.0", "6.0", "4.0", 2), ("0.0", "1.0", "0.5", 3), ("0.0", "1.0", "2.0", 0), ("1.0", "4.0", "1.0", 4)]
    for ci, (a, b, st, n) in enumerate(cases if tier == "quick" else cases + [("-1.0", "1.0", "0.25", 9), ("0.0", "3.0", "3.5", 0), ("5.0", "5.5", "0.5", 2)]):
        qs.append(Q("range_text_c%d" % ci, "C19/range.c", units=["mptplot/values/iterator_linear.c", "mptcore/misc/string_nextvis.c"],
                    harness_defines={"RMIN": a, "RMAX": b, "RSTEP": st, "REXPECT": n, "V_NMAX": 32}, unwind_default=14,
                    fp=FP, flags=["--memory-leak-check"], stubs=["libc.c"],
                    bounds="range description '( A B : S )' with 0..1 blanks in every gap (symbolic), numbers %s %s step %s by the driver (case split; mpt_cdouble by contract): %s"
                           % (a, b, st, ("%d elements in order, then the end" % n) if n else "refused"),
                    outside="number syntax; symbolic bounds (floating-point division); the iterator-source form of the constructor"))
    heads = range(8)
    for h in heads:
        qs.append(Q("profile_text_h%d" % h, "C19/profile.c", units=["mptplot/values/iterator_profile.c", "mptcore/types/type_traits.c", "mptcore/misc/identifier.c",
                                                                "mptcore/array/array_traits.c", "mptcore/meta/meta_reference_traits.c", "mptcore/event/command_traits.c", "mptcore/array/array_clone.c"],
                    harness_defines={"HEADSEL": h, "TL": 4, "V_NMAX": 64}, unwind_default=16, stubs=["libc.c"],
                    flags=["--max-field-sensitivity-array-size", "100"],
                    bounds="profile description = fixed keyword/separator form #%d + 4 symbolic non-NUL bytes; number reader mpt_cdouble() by contract "
                           "(refuses, or consumes 1..remaining bytes and yields a symbolic double); grid length 0..3; constructors are recording stubs" % h,
                    outside="number syntax (mpt_cdouble), poly/file descriptions, mpt_iterator_create() dispatch"))
    return qs
