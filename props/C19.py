# C19 Value generators follow the iterator protocol and their formulas
ASSUMPTIONS = ["generators built through their C constructors with concrete bounds (linear: 0..n-1 step 1; boundary: 10/20/30), element count symbolic",
               "text descriptions (mpt_iterator_create) and the factor/poly/values/file generators are outside the built queries"]
U = ["mptplot/values/iterator_linear.c", "mptplot/values/iterator_boundary.c", "mptplot/values/iterator_factor.c"]
FP = [(r"convertable\.convert", ["iterConv", "iterBoundaryConv", "iterFactorConv"]), (r"_vptr\)\.value", ["iterValue", "iterBoundaryValue", "iterFactorValue"]),
      (r"_vptr\)\.advance", ["iterAdvance", "iterBoundaryAdvance", "iterFactorAdvance"]), (r"_vptr\)\.reset", ["iterReset", "iterBoundaryReset", "iterFactorReset"]),
      (r"_vptr\)\.clone", ["iterClone", "iterBoundaryClone", "iterFactorClone"]), (r"_vptr\)\.unref", ["iterUnref", "iterBoundaryUnref", "iterFactorUnref"])]


def queries(tier):
    k = 5 if tier == "quick" else 8
    qs = []
    for (kind, nm) in ((1, "linear"), (2, "boundary"), (3, "factor")):
        qs.append(Q("protocol_" + nm, "C19/protocol.c", units=U,
                    harness_defines={"KIND": kind, "K": k, "NMAX": 4}, unwind_default=k + 2, fp=FP,
                    flags=["--memory-leak-check"], stubs=["libc.c", "c19_unused.c"],
                    bounds="element count 2..4 symbolic; %d calls from {value, advance, reset, clone-and-switch}" % k,
                    outside="more than %d calls; symbolic bounds (floating-point formulas); other generator kinds" % k))
    return qs
