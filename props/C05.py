# C05 Managed elements in typed buffers are finalised exactly once
ASSUMPTIONS = ["element type = 4-byte tag with ghost ledger traits (h_init/h_fini); relocation by memmove keeps identity",
               "direct mpt_buffer_* calls are made on a private (unshared) buffer, as their callers must",
               "buffer allocation granule as in the tree (128-byte pages, 64 data bytes)"]
OPS = ["SET", "CUT", "INSERT", "DETACH", "UNREF", "ARRAY_SET", "ARRAY_SLICE", "ARRAY_RESERVE", "ARRAY_INSERT"]
SH_OPS = ["DETACH", "UNREF", "ARRAY_SET", "ARRAY_SLICE", "ARRAY_RESERVE", "ARRAY_INSERT"]
REG = {"CUT": ["C05_CUT_TRUNCATE"]}


HEAVY = ("ARRAY_SET", "ARRAY_SLICE", "ARRAY_RESERVE", "ARRAY_INSERT")


def queries(tier):
    qs = []
    n0 = 3
    combos_q = [(k, p, l) for k in (1, 3) for (p, l) in ((0, 1), (1, 2), (3, 1), (3, 0))]
    combos_t = [(k, p, l) for k in range(0, 4) for p in range(0, 6) for l in range(0, 4)]
    for op in OPS:
        for (sh, cf) in ((0, 0), (1, 0), (0, 1), (1, 1)):
            if sh and op not in SH_OPS:
                continue
            if cf and (op, sh) not in (("SET", 0), ("ARRAY_SLICE", 0)) and not (tier == "thorough" and (op, sh) in (("ARRAY_SET", 0), ("ARRAY_SET", 1), ("DETACH", 1))):
                continue
            base = "typed_%s%s%s" % (op.lower(), "_shared" if sh else "", "_ctorfail" if cf else "")
            d0 = {"OP": "OP_" + op, "SHARED": sh, "N0MAX": n0, "CTOR_FAIL": cf}
            variants = []
            if op in HEAVY:
                for (k, p, l) in (combos_q if tier == "quick" else combos_t):
                    if cf and (k, p, l) not in ((3, 1, 2), (1, 3, 1), (3, 0, 1)):
                        continue
                    dd = dict(d0); dd.update({"POS_EL": p, "LEN_EL": l, "N0FIX": k})
                    variants.append(("%s_n%d_p%d_l%d" % (base, k, p, l), dd, "%d live elements, position %d, length %d elements (driver-side case split); source/no-source, relative offset and traits mode symbolic" % (k, p, l)))
            else:
                variants.append((base, d0, "0..%d live elements symbolic, element-aligned byte position 0..20 and length 0..12 symbolic" % n0))
            if not cf and not sh and op == "ARRAY_RESERVE":
                for k in (1, 3):
                    dd = dict(d0); dd.update({"POS_EL": 1, "LEN_EL": 2, "N0FIX": k, "RAWPRE": 1})
                    variants.append(("%s_rawpre_n%d" % (base, k), dd, "raw buffer with %d*4 stale bytes re-reserved for the managed type" % k))
            if not cf and op in ("SET", "CUT", "INSERT"):
                dd = dict(d0); dd["ALIGNED"] = 0
                variants.append((base + "_unaligned", dd, "0..%d live elements, byte position 0..20 / length 0..12 with at least one not element-aligned" % n0))
            for (nm, dd, bd) in variants:
                qs.append(Q(nm, "C05/typed.c", units=ARRAY_UNITS, harness_defines=dd, unwind_default=11,
                            fp=BUF_FP, flags=["--memory-leak-check", "--max-field-sensitivity-array-size", "400"], regions=REG.get(op, []),
                            stubs=["libc.c", "malloc_pages.c", "libc_loops.c"],
                            unwind={"check_buffer": 18, "count_live": 18, "harness": 18, "memcpy": 34, "memmove": 34, "memset": 34},
                            bounds="%s buffer, one %s; %s%s" % ("shared (2 handles)" if sh else "private", op, bd,
                                                               "; the k-th constructor call (k symbolic 0..5) fails" if cf else ""),
                            outside="more than %d initial elements; element sizes other than 4; positions above 5 / lengths above 3 elements; histories (one operation per query)" % n0))
    # a shared buffer that needs a second allocation page (17 elements = 68 > 64 data bytes): the private copy must hold all of them
    for (op, p, l) in (("ARRAY_SLICE", 0, 1), ("ARRAY_INSERT", 1, 1)) if tier == "quick" else (("ARRAY_SLICE", 0, 1), ("ARRAY_SLICE", 16, 1), ("ARRAY_INSERT", 1, 1), ("ARRAY_SET", 1, 1), ("ARRAY_RESERVE", 1, 1)):
        dd = {"OP": "OP_" + op, "SHARED": 1, "N0MAX": 17, "N0FIX": 17, "NTAG": 40, "CTOR_FAIL": 0, "POS_EL": p, "LEN_EL": l}
        qs.append(Q("typed_%s_shared_2pages_p%d_l%d" % (op.lower(), p, l), "C05/typed.c", units=ARRAY_UNITS, harness_defines=dd, unwind_default=20,
                    fp=BUF_FP, flags=["--memory-leak-check", "--max-field-sensitivity-array-size", "400"],
                    stubs=["libc.c", "malloc_pages.c", "libc_loops.c"], timeout=600,
                    unwind={"check_buffer": 42, "count_live": 42, "harness": 42, "memcpy": 90, "memmove": 90, "memset": 90},
                    bounds="shared (2 handles) buffer of 17 live elements (second 128-byte allocation page), one %s at element %d, length %d; source/no-source, traits mode symbolic" % (op, p, l),
                    outside="see the single-page queries"))
    return qs
