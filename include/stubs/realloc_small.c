/* realloc for small blocks with a case split over the requested size (1..12):
 * every branch allocates an object of concrete size (cheap for CBMC); other sizes
 * are a reported failure.  Contents are copied byte-wise, the old block is freed.
 * goto build only. */
#include <stddef.h>
#include <stdlib.h>
void *realloc(void *p, size_t n)
{
	unsigned char *r = 0, *o = p;
	size_t old = p ? __CPROVER_OBJECT_SIZE(p) : 0, i;
	if (!n) { free(p); return 0; }
	if (n == 1) r = malloc(1); else if (n == 2) r = malloc(2); else if (n == 3) r = malloc(3); else if (n == 4) r = malloc(4);
	else if (n == 5) r = malloc(5); else if (n == 6) r = malloc(6); else if (n == 7) r = malloc(7); else if (n == 8) r = malloc(8);
	else if (n == 9) r = malloc(9); else if (n == 10) r = malloc(10); else if (n == 11) r = malloc(11); else if (n == 12) r = malloc(12);
	else { __CPROVER_assert(0, "harness: realloc size within the modelled range 1..12"); __CPROVER_assume(0); }
	__CPROVER_assume(r != 0);
	for (i = 0; i < 12; i++) if (i < old && i < n) r[i] = o[i];
	free(p);
	return r;
}
