/* Flat path model PM (see include/pathmodel.h for the description). */
#include <stdint.h>
#include <string.h>
#include "config.h"
#ifndef PM_CAP
# define PM_CAP 32
#endif
uint8_t pm_text[PM_CAP];
size_t pm_used;

int verif_pm_addchar(MPT_STRUCT(path) *path, int val)
{
	size_t pos = path->off + path->len;
	if ((pos < pm_used) && !(path->flags & MPT_PATHFLAG(KeepPost))) {
		pm_text[pm_used - 1] = (uint8_t) val;
		return 0;
	}
	if (pm_used >= PM_CAP) return -1;
	pm_text[pm_used++] = (uint8_t) val;
	return 1;
}
int verif_pm_delchar(MPT_STRUCT(path) *path)
{
	size_t len = path->off + path->len;
	if (pm_used <= len) return MPT_ERROR(MissingData);
	--pm_used;
	return (char) pm_text[pm_used];
}
int verif_pm_valid(MPT_STRUCT(path) *path)
{
	long post = (long) pm_used - (long) path->off - (long) path->len;
	if (post < 0) return MPT_ERROR(BadValue);
	if (post) path->flags |= MPT_PATHFLAG(KeepPost);
	return (int) post;
}
int verif_pm_add(MPT_STRUCT(path) *path, int add)
{
	size_t len = path->off + path->len, post = pm_used - len, i;
	if (post < (size_t) add) return MPT_ERROR(BadValue);
	post -= add;
	for (i = 0; i < PM_CAP; i++) if (i >= len && i < len + (size_t) add && pm_text[i] == (uint8_t) path->sep) return MPT_ERROR(BadValue);
	if (post < 1) {
		if (pm_used >= PM_CAP) return MPT_ERROR(BadOperation);
		pm_text[pm_used++] = 0;
	}
	if (len) pm_text[len - 1] = (uint8_t) path->sep;
	else path->first = (uint8_t) add;
	len += add;
	pm_text[len++] = (uint8_t) path->assign;
	path->len = len - path->off;
	path->flags &= ~MPT_PATHFLAG(KeepPost);
	return 0;
}
int verif_pm_invalidate(MPT_STRUCT(path) *path)
{
	size_t len = path->off + path->len;
	if (len > pm_used) return MPT_ERROR(BadValue);
	path->flags &= ~MPT_PATHFLAG(KeepPost);
	if (len == pm_used) return 0;
	pm_used = len;
	if (len < PM_CAP) pm_text[len] = 0;
	return 1;
}
