/* targets for the element traits callbacks in harnesses whose buffers are raw
 * (no content traits): reaching one of them is a reported failure */
#include "verif.h"
void h_fini(void *p) { (void) p; V_UNREACHABLE("traits->fini reached on a raw buffer"); }
int h_init(void *p, const void *src) { (void) p; (void) src; V_UNREACHABLE("traits->init reached on a raw buffer"); return -1; }
