/* MPT_ABORT target: reaching it is a reported failure (never assumed away silently) */
#include "verif.h"
void _mpt_abort(const char *msg, const char *fcn, const char *file, int line)
{
	(void) msg; (void) fcn; (void) file; (void) line;
	V_UNREACHABLE("MPT_ABORT reached");
#ifndef VERIF_REPLAY
	__CPROVER_assume(0);
#else
	exit(1);
#endif
}
