/* libc bodies CBMC 6.11 does not ship (goto build only; the native replay uses glibc) */
#include <stddef.h>
void *memchr(const void *s, int c, size_t n)
{
	const unsigned char *p = s;
	size_t i;
	for (i = 0; i < n; i++) {
		if (p[i] == (unsigned char) c) return (void *) (p + i);
	}
	return 0;
}
