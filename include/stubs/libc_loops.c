/* byte-loop bodies for memcpy/memmove/memset (goto build only).  CBMC's own
 * models use whole-array updates, which explode in post-processing when both
 * offset and length are symbolic; for the small bounds used here an unwound byte
 * loop is orders of magnitude cheaper.  Every byte access is still
 * bounds-checked by CBMC; memcpy additionally asserts non-overlap. */
#include <stddef.h>
void *memcpy(void *dst, const void *src, size_t n)
{
	unsigned char *d = dst; const unsigned char *s = src; size_t i;
	__CPROVER_assert(n == 0 || __CPROVER_POINTER_OBJECT(d) != __CPROVER_POINTER_OBJECT(s) || __CPROVER_POINTER_OFFSET(d) + n <= __CPROVER_POINTER_OFFSET(s) || __CPROVER_POINTER_OFFSET(s) + n <= __CPROVER_POINTER_OFFSET(d), "memcpy: regions do not overlap");
	for (i = 0; i < n; i++) d[i] = s[i];
	return dst;
}
void *memmove(void *dst, const void *src, size_t n)
{
	unsigned char *d = dst; const unsigned char *s = src; size_t i;
	if (__CPROVER_POINTER_OBJECT(d) != __CPROVER_POINTER_OBJECT(s) || __CPROVER_POINTER_OFFSET(d) <= __CPROVER_POINTER_OFFSET(s)) { for (i = 0; i < n; i++) d[i] = s[i]; }
	else { for (i = n; i > 0; i--) d[i - 1] = s[i - 1]; }
	return dst;
}
void *memset(void *dst, int c, size_t n)
{
	unsigned char *d = dst; size_t i;
	for (i = 0; i < n; i++) d[i] = (unsigned char) c;
	return dst;
}
