/* malloc with a case split over the size classes the buffer allocator can request
 * in these harnesses (multiples of its 128-byte page): every branch allocates an
 * object of *concrete* size, which keeps CBMC's array reasoning cheap.  A request
 * of any other size is a reported failure (assertion), not silently accepted.
 * Same bookkeeping as CBMC's own malloc model (leak tracking). goto build only. */
#include <stddef.h>
extern const void *__CPROVER_memory_leak;
_Bool nondet_bool_malloc(void);
void *malloc(size_t n)
{
	void *r;
	if (n == 128) r = __CPROVER_allocate(128, 0);
	else if (n == 256) r = __CPROVER_allocate(256, 0);
	else if (n == 384) r = __CPROVER_allocate(384, 0);
	else {
		__CPROVER_assert(0, "harness: allocation size is one of the modelled page multiples (128, 256, 384)");
		__CPROVER_assume(0);
		r = 0;
	}
	if (nondet_bool_malloc()) __CPROVER_memory_leak = r;
	return r;
}
