/* text/argument parsing entry points referenced by the generator units but not
 * reachable from the constructor-based protocol harness: reaching one is a
 * reported failure */
#include "verif.h"
#include <sys/uio.h>
#include "types.h"
#include "convert.h"
#include "values.h"
int mpt_cdouble(double *v, const char *s, const double r[2]) { (void) v; (void) s; (void) r; V_UNREACHABLE("mpt_cdouble not part of this query"); return -1; }
int mpt_cuint32(uint32_t *v, const char *s, int b, const uint32_t r[2]) { (void) v; (void) s; (void) b; (void) r; V_UNREACHABLE("mpt_cuint32 not part of this query"); return -1; }
int mpt_iterator_consume(MPT_INTERFACE(iterator) *it, MPT_TYPE(type) t, void *p) { (void) it; (void) t; (void) p; V_UNREACHABLE("mpt_iterator_consume not part of this query"); return -1; }
int mpt_range_set(MPT_STRUCT(range) *r, const MPT_STRUCT(value) *v) { (void) r; (void) v; V_UNREACHABLE("mpt_range_set not part of this query"); return -1; }
int mpt_string_nextvis(const char **s) { (void) s; V_UNREACHABLE("mpt_string_nextvis not part of this query"); return -1; }
