/*
 * Flat path model PM: replaces the storage behind mpt_path_addchar/delchar/valid/
 * add/invalidate for the parser-layer queries (the parser units are compiled with
 * these names substituted).  One byte array, `pm_used` = stored bytes; path->off /
 * path->len / path->flags are the real fields.  Semantics transcribed from
 * config/path_addchar.c, path_valid.c, path_add.c (text mode), path_del.c for a
 * private, mutable, array-backed path; equivalence with the real functions is the
 * subject of the L0 query (harness/C08/pm_equiv.c).
 */
#ifndef PATHMODEL_H
#define PATHMODEL_H
#include <stdint.h>
#include "config.h"
#ifndef PM_CAP
# define PM_CAP 32
#endif
extern uint8_t pm_text[PM_CAP];
extern size_t pm_used;
extern int verif_pm_addchar(MPT_STRUCT(path) *, int);
extern int verif_pm_delchar(MPT_STRUCT(path) *);
extern int verif_pm_valid(MPT_STRUCT(path) *);
extern int verif_pm_add(MPT_STRUCT(path) *, int);
extern int verif_pm_invalidate(MPT_STRUCT(path) *);
#endif
