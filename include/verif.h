/*
 * verif.h — shims shared by every harness.
 *
 * Under CBMC (default) inputs are nondeterministic and V_ASSERT/V_ASSUME map to
 * __CPROVER_assert/__CPROVER_assume.  Under -DVERIF_REPLAY the same harness is an
 * ordinary program: inputs are read, in call order, from the replay file named by
 * $VERIF_REPLAY_FILE (one unsigned 64-bit value per line, '#' lines ignored),
 * a failed assumption exits 77 and a failed assertion prints and exits 1.
 */
#ifndef VERIF_H
#define VERIF_H

#include <stdint.h>
#include <stddef.h>

#ifndef VERIF_REPLAY
/* ---- CBMC side ---- */
unsigned long long nondet_ull(void);
# ifndef V_NMAX
#  define V_NMAX 64
# endif
/* every input passes through here.  The value is stored in V_LOG[k] and read
 * back from there, so that (even with --slice-formula) the counterexample trace
 * contains the assignment "V_LOG[k] = value" for every input the failing
 * property depends on; the driver reads (k, value) pairs from the trace. */
static unsigned long long V_LOG[V_NMAX];
static unsigned v_cnt;
static unsigned long long v_in_raw(const char *name)
{
	unsigned k = v_cnt++;
	(void) name;
	__CPROVER_assert(k < V_NMAX, "harness: input log large enough (raise V_NMAX)");
	V_LOG[k] = nondet_ull();
	return V_LOG[k];
}
# define V_ASSUME(c)       __CPROVER_assume(c)
# ifdef WITNESS
#  define V_ASSERT(c, msg)  ((void) 0)
# else
#  define V_ASSERT(c, msg)  __CPROVER_assert((c), msg)
# endif
# define V_UNREACHABLE(msg) __CPROVER_assert(0, msg)
#else
/* ---- native replay side ---- */
# include <stdio.h>
# include <stdlib.h>
# include <string.h>
static unsigned long long v_tab[4096];
static unsigned char v_have[4096];
static int v_loaded;
static unsigned v_cnt;
static unsigned long long v_in_raw(const char *name)
{
	unsigned k = v_cnt++;
	if (!v_loaded) {
		char line[4096];
		const char *fn = getenv("VERIF_REPLAY_FILE");
		FILE *f;
		if (!fn || !(f = fopen(fn, "r"))) {
			fprintf(stderr, "REPLAY: no input file\n");
			exit(3);
		}
		while (fgets(line, sizeof(line), f)) {
			unsigned idx; unsigned long long val;
			if (line[0] == '#' || line[0] == '\n') continue;
			if (sscanf(line, "%u %llu", &idx, &val) == 2 && idx < 4096) { v_tab[idx] = val; v_have[idx] = 1; }
		}
		fclose(f);
		v_loaded = 1;
	}
	if (getenv("VERIF_REPLAY_VERBOSE")) fprintf(stderr, "REPLAY-IN: %u %s %llu%s\n", k, name, k < 4096 ? v_tab[k] : 0, (k < 4096 && v_have[k]) ? "" : " (not in trace: irrelevant to the failing check, 0 used)");
	return k < 4096 ? v_tab[k] : 0;
}
# define V_ASSUME(c)       do { if (!(c)) { fprintf(stderr, "REPLAY: assumption failed: %s (line %d)\n", #c, __LINE__); exit(77); } } while (0)
# define V_ASSERT(c, msg)  do { if (!(c)) { fprintf(stderr, "REPLAY: ASSERTION FAILED: %s [%s] (line %d)\n", msg, #c, __LINE__); exit(1); } } while (0)
# define V_UNREACHABLE(msg) do { fprintf(stderr, "REPLAY: ASSERTION FAILED: %s (line %d)\n", msg, __LINE__); exit(1); } while (0)
# define __CPROVER_assume(c) V_ASSUME(c)
# define __CPROVER_assert(c, msg) V_ASSERT(c, msg)
#endif

#define V_IN_U8(name)    ((uint8_t)  (v_in_raw(name) & 0xffu))
#define V_IN_U16(name)   ((uint16_t) (v_in_raw(name) & 0xffffu))
#define V_IN_U32(name)   ((uint32_t) (v_in_raw(name) & 0xffffffffu))
#define V_IN_U64(name)   ((uint64_t) v_in_raw(name))
static inline int8_t  v_in_i8(const char *n)  { union { uint8_t u;  int8_t i;  } c; c.u = V_IN_U8(n);  return c.i; }
static inline int16_t v_in_i16(const char *n) { union { uint16_t u; int16_t i; } c; c.u = V_IN_U16(n); return c.i; }
static inline int32_t v_in_i32(const char *n) { union { uint32_t u; int32_t i; } c; c.u = V_IN_U32(n); return c.i; }
static inline int64_t v_in_i64(const char *n) { union { uint64_t u; int64_t i; } c; c.u = V_IN_U64(n); return c.i; }
#define V_IN_I8(name)    v_in_i8(name)
#define V_IN_I16(name)   v_in_i16(name)
#define V_IN_I32(name)   v_in_i32(name)
#define V_IN_I64(name)   v_in_i64(name)
#define V_IN_SIZE(name)  ((size_t)   v_in_raw(name))
#define V_IN_BOOL(name)  ((int) (v_in_raw(name) & 1))
/* value in [lo, hi] (assumed) */
static inline unsigned long long v_in_range(const char *name, unsigned long long lo, unsigned long long hi)
{
	unsigned long long v = v_in_raw(name);
	V_ASSUME(v >= lo && v <= hi);
	return v;
}
#define V_IN_RANGE(name, lo, hi) v_in_range(name, lo, hi)
static inline double v_in_double(const char *name)
{
	union { uint64_t u; double d; } c;
	c.u = v_in_raw(name);
	return c.d;
}
static inline float v_in_float(const char *name)
{
	union { uint32_t u; float f; } c;
	c.u = (uint32_t) v_in_raw(name);
	return c.f;
}
#define V_IN_BYTES(arr, n, name) do { size_t v_i_; for (v_i_ = 0; v_i_ < (size_t)(n); v_i_++) (arr)[v_i_] = V_IN_U8(name); } while (0)

/* known-finding regions: mode 0 = not listed (no constraint), 1 = listed:
 * excluded from the main query, 2 = twin restricted to the region */
#define V_KF(mode, pred) do { if ((mode) == 1) V_ASSUME(!(pred)); else if ((mode) == 2) V_ASSUME(pred); } while (0)

/* the final reachability witness: the WITNESS twin must FAIL here */
#ifdef WITNESS
# ifndef VERIF_REPLAY
#  define V_WITNESS_END() __CPROVER_assert(0, "witness: harness end reachable")
# else
#  define V_WITNESS_END() ((void) 0)
# endif
#else
# define V_WITNESS_END() ((void) 0)
#endif
/* named interesting region: twin built with -DWITNESS -DWITNESS_REGION_<x> */
#if defined(WITNESS) && !defined(VERIF_REPLAY)
# define V_WITNESS_REGION(on, pred) do { if (on) __CPROVER_assume(pred); } while (0)
#else
# define V_WITNESS_REGION(on, pred) ((void) 0)
#endif

#endif /* VERIF_H */
