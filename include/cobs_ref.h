/* Independent reference decoder for one COBS / COBS-R / COBS-ZPE / COBS-ZPE+R frame
 * starting at in[0].  Returns 1 (well-formed frame: message in out[0..*olen),
 * *used input bytes incl. the delimiter), 0 (input ends inside the frame) or -1
 * (malformed: leading/double delimiter, zero inside a block of a non-R framing). */
#ifndef COBS_REF_H
#define COBS_REF_H
#include <stdint.h>
#include <stddef.h>
#define REF_COBS 0
#define REF_COBS_R 1
#define REF_ZPE 2
#define REF_ZPE_R 3
static int ref_decode(int variant, const uint8_t *in, size_t n, uint8_t *out, size_t *olen, size_t *used)
{
	size_t i = 0, o = 0;
	int zpe = variant >= 2, tail = variant & 1;
	unsigned maxlen = zpe ? 0xDF : 0xFF;
	*olen = 0; *used = 0;
	if (n == 0) return 0;
	if (in[0] == 0) { *used = 1; return -1; }
	while (1) {
		unsigned code = in[i++];
		unsigned dl = (!zpe || code <= 0xDF) ? code - 1 : code - 0xE0;
		unsigned k, next, z;
		for (k = 0; k < dl; k++) {
			if (i >= n) return 0;
			if (in[i] == 0) {
				*used = i + 1;
				if (!tail) return -1;
				out[o++] = (uint8_t) code;
				*olen = o;
				return 1;
			}
			out[o++] = in[i++];
		}
		if (i >= n) return 0;
		next = in[i];
		z = (zpe && code >= 0xE0) ? 2 : ((code < maxlen && next != 0) ? 1 : 0);
		while (z--) out[o++] = 0;
		if (next == 0) { *olen = o; *used = i + 1; return 1; }
	}
}
#endif
