/*
 * C19: iterator protocol on a generator built by its C constructor.
 * -DKIND=1 linear (n elements 0,1,..,n-1 as doubles: start 0, end n-1)
 * -DKIND=2 boundary (left, inter.., right = 10, 20, 30)
 * -DKIND=3 factor with its default parameters (10 elements: 0, 10, 100, ...)
 * n symbolic 2..NMAX; K calls chosen symbolically from {value, advance, reset,
 * clone-and-switch}.  Model: position counter.  value() non-NULL iff pos < n and
 * equals the element the source denotes; advance at the end is reported, never a
 * fault; after reset / in a clone the same sequence is produced.
 */
#include "verif.h"
#include <stdlib.h>
#include <sys/uio.h>
#include "types.h"
#include "meta.h"
#include "values.h"

#ifndef NMAX
# define NMAX 4
#endif
#ifndef K
# define K 6
#endif

static double expect(uint32_t n, uint32_t pos)
{
#if KIND == 1
	(void) n; return (double) pos;
#elif KIND == 3
	/* default factor source: start 0, then base 10 multiplied by 10 per step */
	{ double v = 10.0; uint32_t i; (void) n; if (!pos) return 0.0; for (i = 1; i < pos; i++) v *= 10.0; return v; }
#else
	return pos == 0 ? 10.0 : (pos < n - 1 ? 20.0 : 30.0);
#endif
}

void harness(void)
{
	uint32_t n = (uint32_t) V_IN_RANGE("n", 2, NMAX), pos = 0;
	MPT_INTERFACE(metatype) *mt;
	MPT_INTERFACE(iterator) *it = 0;
	int k, r;
#if KIND == 1
	mt = mpt_iterator_linear(n, 0.0, (double) (n - 1));
#elif KIND == 3
	n = 10;
	mt = _mpt_iterator_factor(0);
#else
	mt = mpt_iterator_boundary(n, 10.0, 20.0, 30.0);
#endif
	V_ASSUME(mt != 0);
	r = mt->_vptr->convertable.convert((MPT_INTERFACE(convertable) *) mt, MPT_ENUM(TypeIteratorPtr), &it);
	V_ASSERT(r >= 0 && it != 0, "generator offers the iterator interface");
	for (k = 0; k < K; k++) {
		int op = (int) V_IN_RANGE("op", 0, 3);
		if (op == 0) {
			const MPT_STRUCT(value) *v = it->_vptr->value(it);
			if (pos >= n) V_ASSERT(v == 0, "reading past the end is reported");
			else {
				V_ASSERT(v != 0 && v->_type == 'd' && v->_addr != 0, "current element is available");
				if (v && v->_addr) V_ASSERT(*(const double *) v->_addr == expect(n, pos), "element equals the value the source denotes");
			}
		}
		else if (op == 1) {
			r = it->_vptr->advance(it);
			if (pos >= n) V_ASSERT(r < 0, "advancing past the end is reported");
			else { pos++; V_ASSERT(pos == n ? r == 0 : r > 0, "advance reports whether a further element exists"); }
		}
		else if (op == 2) {
			r = it->_vptr->reset(it);
			V_ASSERT(r >= 0, "reset succeeds");
			pos = 0;
		}
		else {
			MPT_INTERFACE(metatype) *c = mt->_vptr->clone(mt);
			MPT_INTERFACE(iterator) *ci = 0;
			V_ASSERT(c != 0, "generator can be cloned");
			if (!c) continue;
			r = c->_vptr->convertable.convert((MPT_INTERFACE(convertable) *) c, MPT_ENUM(TypeIteratorPtr), &ci);
			V_ASSERT(r >= 0 && ci != 0, "clone offers the iterator interface");
			mt->_vptr->unref(mt);
			mt = c; it = ci;
			/* the clone continues at the same position with the same sequence */
		}
	}
	mt->_vptr->unref(mt);
	V_WITNESS_END();
}
