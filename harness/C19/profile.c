/*
 * C19 (text-described sources): mpt_iterator_profile() over "<keyword><sep><tail>".
 * The keyword/separator part is one of a fixed list (split by the driver), the
 * tail is TL symbolic bytes.  The number reader mpt_cdouble() is a contract stub:
 * per call it either refuses (<= 0) or consumes 1..remaining bytes and yields a
 * symbolic double.  The generator constructors are recording stubs.
 * Oracle: a "linear" description creates the linear generator over the grid length
 * with exactly the first two numbers read, a "boundary" description the boundary
 * generator with exactly the first three; a description with fewer readable
 * numbers is refused (NULL, no constructor called).
 */
#include "verif.h"
#include <string.h>
#include <errno.h>
#include <sys/uio.h>
#include "types.h"
#include "meta.h"
#include "convert.h"
#include "values.h"

#ifndef TL
# define TL 4
#endif
/* numbers the keyword needs: linear 2, boundary 3, 0: must be refused */
#ifndef HEADSEL
# define HEADSEL 0
#endif
#if HEADSEL == 0
# define HEAD "bound "
# define WANT 3
#elif HEADSEL == 1
# define HEAD "  Boundary : "
# define WANT 3
#elif HEADSEL == 2
# define HEAD "lin "
# define WANT 2
#elif HEADSEL == 3
# define HEAD "linear:"
# define WANT 2
#elif HEADSEL == 4
# define HEAD "bou "
# define WANT 0
#elif HEADSEL == 5
# define HEAD "boundx "
# define WANT 0
#elif HEADSEL == 6
# define HEAD "linea:\t"
# define WANT 2
#else
# define HEAD "bounda "
# define WANT 3
#endif

static char text[sizeof(HEAD) + TL];
static int ncall, nok, failed;
static double num[4];
static size_t used;      /* bytes of the tail consumed so far */
static const char *tail;

int mpt_cdouble(double *val, const char *src, const double range[2])
{
	size_t left, take;
	(void) range;
	V_ASSERT(tail && src == tail + used, "number reader continues where the previous number ended");
	ncall++;
	left = TL - used;
	if (failed || !left || !V_IN_BOOL("readable") || ncall > 4) { failed = 1; return V_IN_BOOL("eof") ? 0 : MPT_ERROR(BadValue); }
	take = (size_t) V_IN_RANGE("consumed", 1, left);
	num[nok] = v_in_double("number");
	*val = num[nok++];
	used += take;
	return (int) take;
}

static int made_kind; static uint32_t made_len; static double made[3];
static MPT_INTERFACE(metatype) dummy;
MPT_INTERFACE(metatype) *mpt_iterator_linear(uint32_t n, double a, double b) { made_kind = 1; made_len = n; made[0] = a; made[1] = b; return &dummy; }
MPT_INTERFACE(metatype) *mpt_iterator_boundary(uint32_t n, double l, double m, double r) { made_kind = 2; made_len = n; made[0] = l; made[1] = m; made[2] = r; return &dummy; }
MPT_INTERFACE(metatype) *mpt_iterator_poly(const char *d, const _MPT_ARRAY_TYPE(double) *a) { (void) d; (void) a; made_kind = 3; return &dummy; }
MPT_INTERFACE(metatype) *mpt_iterator_file(int fd) { (void) fd; made_kind = 4; return &dummy; }
MPT_INTERFACE(metatype) *mpt_iterator_values(const char *d) { (void) d; made_kind = 5; return &dummy; }
int open(const char *p, int fl, ...) { (void) p; (void) fl; return -1; }
int atexit(void (*fn)(void)) { (void) fn; return 0; }

static int same(double a, double b) { return memcmp(&a, &b, sizeof(a)) == 0; }

void harness(void)
{
	MPT_STRUCT(buffer) buf;
	_MPT_ARRAY_TYPE(double) arr;
	MPT_INTERFACE(metatype) *mt;
	uint32_t glen = (uint32_t) V_IN_RANGE("grid", 0, 3);
	size_t i, hl = sizeof(HEAD) - 1;

	memcpy(text, HEAD, hl);
	for (i = 0; i < TL; i++) { text[hl + i] = (char) V_IN_U8("tail"); V_ASSUME(text[hl + i] != 0); }
	V_ASSUME(text[hl] != ':' && text[hl] != ' ' && !(text[hl] >= 9 && text[hl] <= 13));   /* separators belong to the head */
	text[hl + TL] = 0;
	tail = text + hl;
	memset(&buf, 0, sizeof(buf));
	buf._content_traits = mpt_type_traits('d');
	buf._used = glen * sizeof(double);
	*(size_t *) &buf._size = 3 * sizeof(double);
	*(MPT_STRUCT(buffer) **) &arr = &buf;

	mt = mpt_iterator_profile(&arr, text);
	if (!glen) {
		V_ASSERT(mt == 0 && !made_kind, "a description over an empty grid is refused");
	}
	else if (WANT && nok >= WANT) {
		V_ASSERT(mt == &dummy && made_kind == (WANT == 2 ? 1 : 2), "a complete description creates its generator");
		V_ASSERT(made_len == glen, "generator covers the grid length");
		for (i = 0; i < WANT; i++) V_ASSERT(same(made[i], num[i]), "generator receives the numbers of the description in order");
		V_ASSERT(ncall == WANT, "exactly the needed numbers are read");
	}
	else {
		V_ASSERT(mt == 0 && !made_kind, "a description with too few numbers is refused");
	}
	V_WITNESS_END();
}
