/*
 * C19 (text-described range): _mpt_iterator_range() on "( A B : S )" where every
 * gap holds 0..1 blanks (symbolic) and A, B, S are number placeholders read by a
 * contract stub of mpt_cdouble() (skips blanks, consumes one placeholder, yields
 * the driver's RMIN / RMAX / RSTEP).  mpt_string_nextvis and the constructor are
 * real.  Oracle: a description whose step fits the span denotes the elements
 * RMIN, RMIN+RSTEP, ... not beyond RMAX (REXPECT of them, in order, through the
 * documented value/advance loop, then the end is reported); a step larger than
 * the span (REXPECT 0) is refused.
 */
#include "verif.h"
#include <string.h>
#include <errno.h>
#include <sys/uio.h>
#include "types.h"
#include "meta.h"
#include "convert.h"
#include "values.h"

#ifndef RMIN
# define RMIN 0.0
# define RMAX 1.0
# define RSTEP 1.0
# define REXPECT 2
#endif
static const double nums[3] = { RMIN, RMAX, RSTEP };
static int ncall;
static char text[16];

int mpt_cdouble(double *val, const char *src, const double range[2])
{
	int n = 0;
	(void) range;
	V_ASSERT(src >= text && src < text + sizeof(text), "number reader stays inside the description");
	while (src[n] == ' ') n++;
	if (src[n] != 'x' || ncall >= 3) return MPT_ERROR(BadValue);
	*val = nums[ncall++];
	return n + 1;
}
int atexit(void (*fn)(void)) { (void) fn; return 0; }
/* entry points of the other constructor forms: not reachable from a text description */
int mpt_cuint32(uint32_t *v, const char *s, int b, const uint32_t r[2]) { (void) v; (void) s; (void) b; (void) r; V_UNREACHABLE("mpt_cuint32 not part of this query"); return -1; }
int mpt_iterator_consume(MPT_INTERFACE(iterator) *it, MPT_TYPE(type) t, void *p) { (void) it; (void) t; (void) p; V_UNREACHABLE("mpt_iterator_consume not part of this query"); return -1; }
int mpt_range_set(MPT_STRUCT(range) *r, const MPT_STRUCT(value) *v) { (void) r; (void) v; V_UNREACHABLE("mpt_range_set not part of this query"); return -1; }

void harness(void)
{
	static const char shape[] = "(x x:x)";   /* a blank may follow '(' , precede ':' , follow ':' , precede ')' ; the blank between the bounds may double */
	MPT_INTERFACE(metatype) *mt;
	MPT_INTERFACE(iterator) *it = 0;
	MPT_STRUCT(value) val;
	const char *tp = text;
	size_t len = 0, i;
	int r, k;

	for (i = 0; shape[i]; i++) {
		if ((shape[i] == 'x' || shape[i] == ':' || shape[i] == ')') && V_IN_BOOL("blank")) text[len++] = ' ';
		text[len++] = shape[i];
	}
	text[len] = 0;
	MPT_value_set(&val, 's', &tp);
	mt = _mpt_iterator_range(&val);
#if REXPECT == 0
	V_ASSERT(mt == 0, "a step larger than the span is refused");
#else
	V_ASSERT(mt != 0, "a well-formed range description is accepted");
	if (!mt) return;
	V_ASSERT(ncall == 3, "both bounds and the step are read");
	r = mt->_vptr->convertable.convert((MPT_INTERFACE(convertable) *) mt, MPT_ENUM(TypeIteratorPtr), &it);
	V_ASSERT(r >= 0 && it != 0, "generator offers the iterator interface");
	for (k = 0; k < REXPECT; k++) {
		const MPT_STRUCT(value) *v = it->_vptr->value(it);
		V_ASSERT(v != 0 && v->_type == 'd' && v->_addr != 0, "current element is available");
		if (v && v->_addr) V_ASSERT(*(const double *) v->_addr == RMIN + k * RSTEP, "element equals the value the description denotes");
		r = it->_vptr->advance(it);
		V_ASSERT(k + 1 < REXPECT ? r > 0 : r == 0, "advance reports whether a further element exists");
	}
	V_ASSERT(it->_vptr->value(it) == 0 && it->_vptr->advance(it) < 0, "the end is reported");
	mt->_vptr->unref(mt);
#endif
	V_WITNESS_END();
}
