/*
 * C07 family 1: integer -> integer/char conversion, source value fully symbolic.
 * -DSRC_T=<type> -DSRC_FN=<mpt_data_convert_*>.  Target symbolic over "cbynqiuxtl".
 * Oracle: refused (r < 0, destination untouched) or the stored object, read with
 * the target's own type, equals the source as a mathematical integer (__int128);
 * query mode (dest == NULL) gives the same verdict without faulting.
 */
#include "verif.h"
#include <sys/uio.h>
#include "types.h"
#include "convert.h"

typedef __int128 wide;

#ifndef KF_C07_U8_QUERY_NULL
# define KF_C07_U8_QUERY_NULL 0
#endif

void harness(void)
{
	static const char targets[] = "cbynqiuxtl";
	SRC_T val = SRC_IN("val");
	uint8_t tsel = V_IN_U8("target");
	union {
		char c; int8_t b; uint8_t y; int16_t n; uint16_t q;
		int32_t i; uint32_t u; int64_t x; uint64_t t;
		unsigned char raw[16];
	} dst;
	int type, r, qr, k;
	wide got = 0;

	V_ASSUME(tsel < 10);
	type = targets[tsel];
	for (k = 0; k < 16; k++) dst.raw[k] = 0xA5;

	qr = SRC_FN(&val, type, 0);
	r  = SRC_FN(&val, type, &dst);

	V_ASSERT((qr < 0) == (r < 0), "query mode gives the same verdict as performing the conversion");
	if (r < 0) {
		for (k = 0; k < 16; k++) V_ASSERT(dst.raw[k] == 0xA5, "refused conversion leaves destination untouched");
		V_WITNESS_END();
		return;
	}
	V_ASSERT(r > 0 && r <= 8, "accepted conversion reports a scalar size");
	switch (type) {
	case 'c': got = dst.c; break;
	case 'b': got = dst.b; break;
	case 'y': got = dst.y; break;
	case 'n': got = dst.n; break;
	case 'q': got = dst.q; break;
	case 'i': got = dst.i; break;
	case 'u': got = dst.u; break;
	case 'x': case 'l': got = dst.x; break;
	case 't': got = dst.t; break;
	}
	V_ASSERT(got == (wide) val, "accepted conversion stores exactly the source number");
	for (k = r; k < 16; k++) V_ASSERT(dst.raw[k] == 0xA5, "nothing written beyond the reported size");
	V_WITNESS_END();
}
