/*
 * C07 family 4: numeric text -> integer, for EVERY answer the C library parser
 * may give.  Under CBMC strtoimax/strtoumax are contract stubs: they report a
 * numeral described by ghost facts (sign, exact magnitude or "magnitude beyond
 * 64 bits", characters consumed) and return what ISO C prescribes for it
 * (saturation + ERANGE, negation for the unsigned parser).  In the native replay
 * the numeral is printed into the text and the real glibc parsers run.
 * Oracle: the wrapper accepts (r > 0) only if the stored value, read with the
 * target type, equals the denoted number exactly; r = consumed characters;
 * query mode (no destination) gives the same verdict.
 * -DFMT='x' etc. selects the target through mpt_convert_string.
 */
#include "verif.h"
#include <string.h>
#include <stdio.h>
#include <errno.h>
#include <inttypes.h>
#include "types.h"
#include "convert.h"

#ifndef DIRECT
# define DIRECT 0
#endif
typedef __int128 wide;

static int g_neg, g_over;
static uint64_t g_mag;
static size_t g_consumed;   /* characters of the numeral */
static size_t g_lead;       /* leading blanks before it */

#ifndef VERIF_REPLAY
intmax_t strtoimax(const char *s, char **end, int base)
{
	(void) base;
	*end = (char *) s + g_consumed + (DIRECT ? g_lead : 0);
	if (g_over || (!g_neg && g_mag > (uint64_t) INTMAX_MAX) || (g_neg && g_mag > (uint64_t) INTMAX_MAX + 1u)) {
		errno = ERANGE;
		return g_neg ? INTMAX_MIN : INTMAX_MAX;
	}
	if (g_neg) return g_mag == (uint64_t) INTMAX_MAX + 1u ? INTMAX_MIN : -(intmax_t) g_mag;
	return (intmax_t) g_mag;
}
uintmax_t strtoumax(const char *s, char **end, int base)
{
	(void) base;
	*end = (char *) s + g_consumed + (DIRECT ? g_lead : 0);
	if (g_over) { errno = ERANGE; return UINTMAX_MAX; }
	return g_neg ? (uintmax_t) 0 - g_mag : g_mag;
}
#endif

void harness(void)
{
	char txt[48];
	union { int8_t b; uint8_t y; int16_t n; uint16_t q; int32_t i; uint32_t u; int64_t x; uint64_t t; unsigned char raw[8]; } dst;
	int r, qr, k;
	wide denoted, got = 0;

	g_neg = V_IN_BOOL("neg");
	g_over = V_IN_BOOL("beyond_64_bits");
	g_mag = V_IN_U64("magnitude");
	g_lead = V_IN_RANGE("leading_blanks", 0, 2);
#ifdef VERIF_REPLAY
	{
	int l = snprintf(txt, sizeof(txt), "%s%s%" PRIu64 "%s", g_lead == 2 ? " \t" : g_lead == 1 ? " " : "", g_neg ? "-" : "",
	                 g_over ? UINT64_MAX : g_mag, g_over ? "0" : "");
	g_consumed = (size_t) l - g_lead;
	}
#else
	g_consumed = V_IN_RANGE("numeral_chars", 1, 22);
	for (k = 0; k < 48; k++) txt[k] = 0;
	for (k = 0; k < 2; k++) if ((size_t) k < g_lead) txt[k] = k ? '\t' : ' ';
	txt[g_lead] = g_neg ? '-' : '1';   /* first numeral character: not NUL, not blank */
	if (g_consumed > 1) txt[g_lead + 1] = '1';
#endif
	for (k = 0; k < 8; k++) dst.raw[k] = 0xA5;
	errno = 0;
#if DIRECT
	/* number parser called directly on text that still carries its leading blanks */
	qr = mpt_convert_number(txt, FMT, 0);
	errno = 0;
	r = mpt_convert_number(txt, FMT, &dst);
#else
	qr = mpt_convert_string(txt, FMT, 0);
	errno = 0;
	r = mpt_convert_string(txt, FMT, &dst);
#endif
	V_ASSERT((qr > 0) == (r > 0), "query mode gives the same verdict");
	if (r <= 0) {
		for (k = 0; k < 8; k++) V_ASSERT(dst.raw[k] == 0xA5, "refused conversion leaves the destination untouched");
		V_WITNESS_END();
		return;
	}
	V_ASSERT(!g_over, "a numeral beyond 64 bits is never accepted");
	denoted = g_neg ? -(wide) g_mag : (wide) g_mag;
	switch (FMT) {
	case 'b': got = dst.b; break; case 'y': got = dst.y; break;
	case 'n': got = dst.n; break; case 'q': got = dst.q; break;
	case 'i': got = dst.i; break; case 'u': got = dst.u; break;
	case 'x': case 'l': got = dst.x; break; case 't': got = dst.t; break;
	}
	V_ASSERT(got == denoted, "accepted text yields exactly the number its characters denote");
	V_ASSERT((size_t) r == g_lead + g_consumed, "consumed count = leading blanks + numeral characters");
	V_WITNESS_END();
}
