/*
 * C07 family 2: floating-point sources.  double -> float/double, float -> float/
 * double, integer -> float/double.  Oracle: an accepted conversion never turns a
 * finite source into an infinity (silent saturation), keeps NaN a NaN, is exact
 * whenever the source is representable in the target, and otherwise is the
 * correctly rounded neighbour; query mode (no destination) gives the same verdict.
 * -DKIND: 1 = double source, 2 = float source, 3 = int64 source, 4 = uint64 source.
 */
#include "verif.h"
#include <sys/uio.h>
#include <float.h>
#include "types.h"
#include "convert.h"

static int is_fin_d(double d) { return d == d && d - d == 0; }
static int is_fin_f(float f) { return f == f && f - f == 0; }

void harness(void)
{
	int to_float = V_IN_BOOL("target_is_float"), r, qr;
	union { float f; double d; unsigned char raw[8]; } dst;
	int k;
	for (k = 0; k < 8; k++) dst.raw[k] = 0xA5;
#if KIND == 1
	double s = v_in_double("source");
	qr = mpt_data_convert_float64(&s, to_float ? 'f' : 'd', 0);
	r = mpt_data_convert_float64(&s, to_float ? 'f' : 'd', &dst);
#elif KIND == 2
	float s = v_in_float("source");
	qr = mpt_data_convert_float32(&s, to_float ? 'f' : 'd', 0);
	r = mpt_data_convert_float32(&s, to_float ? 'f' : 'd', &dst);
#elif KIND == 3
	int64_t s = V_IN_I64("source");
	qr = mpt_data_convert_int64(&s, to_float ? 'f' : 'd', 0);
	r = mpt_data_convert_int64(&s, to_float ? 'f' : 'd', &dst);
#else
	uint64_t s = V_IN_U64("source");
	qr = mpt_data_convert_uint64(&s, to_float ? 'f' : 'd', 0);
	r = mpt_data_convert_uint64(&s, to_float ? 'f' : 'd', &dst);
#endif
	V_ASSERT((qr < 0) == (r < 0), "query mode gives the same verdict");
	if (r < 0) {
		for (k = 0; k < 8; k++) V_ASSERT(dst.raw[k] == 0xA5, "refused conversion leaves the destination untouched");
		V_WITNESS_END();
		return;
	}
#if KIND <= 2
	if (s != s) { if (to_float) V_ASSERT(dst.f != dst.f, "NaN stays NaN"); else V_ASSERT(dst.d != dst.d, "NaN stays NaN"); }
	else if (to_float) {
		V_ASSERT(dst.f == (float) s, "result is the correctly rounded value");
		if (is_fin_d((double) s)) V_ASSERT(is_fin_f(dst.f), "a finite source never becomes an infinity");
	} else {
		V_ASSERT(dst.d == (double) s, "widening is exact");
	}
#else
	if (to_float) { V_ASSERT(dst.f == (float) s, "result is the correctly rounded value"); V_ASSERT(is_fin_f(dst.f), "integers never become an infinity"); }
	else { V_ASSERT(dst.d == (double) s, "result is the correctly rounded value"); }
#endif
	V_WITNESS_END();
}
