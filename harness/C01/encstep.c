/*
 * C01 family 3 (encoder S-step, real block constants): one push of K <= 3 symbolic
 * bytes into the plain COBS encoder from an arbitrary state (finished bytes done
 * <= 3, open block of code 0..254 data+slot bytes), ample output space.  Oracle:
 * a reference step function (textbook COBS) run on a shadow copy of the buffer:
 * same consumed count, same (done, open block length), same bytes in the region
 * from the old `done` to the end of the open block; everything before `done` and
 * behind the written region untouched.  Covers the 253/254/255 block boundary at
 * every position of the push.
 */
#define V_NMAX 300
#include "verif.h"
#include <string.h>
#include <sys/uio.h>
#include "convert.h"

#ifdef ZPE
# define ENCODER mpt_encode_cobs_zpe
# define ENCODER_R mpt_encode_cobs_zpe_r
# define MAXLEN 0xDF
#else
# define ENCODER mpt_encode_cobs
# define ENCODER_R mpt_encode_cobs_r
# define MAXLEN 0xFF
#endif
#define CAP 268
#define KMAX 3
static uint8_t out[CAP], sh[CAP];

void harness(void)
{
	MPT_STRUCT(encode_state) st = MPT_ENCODE_INIT;
	size_t done0 = V_IN_RANGE("done", 0, 3), code0 = V_IN_RANGE("open_block", 0, MAXLEN - 1), k = V_IN_RANGE("k", 1, KMAX), i;
	uint8_t in[KMAX];
	struct iovec to, from;
	ssize_t r;
	size_t pos, code, wp, end;

	for (i = 0; i < KMAX; i++) in[i] = V_IN_U8("in");
	/* buffer content: open block data are non-zero bytes, rest arbitrary */
	for (i = 0; i < CAP; i++) { out[i] = V_IN_U8("buf"); if (i > done0 && i < done0 + code0 && !out[i]) out[i] = 1; sh[i] = out[i]; }
	st.done = done0; st.scratch = code0; st._ctx = 0;
	to.iov_base = out; to.iov_len = CAP;
	from.iov_base = in; from.iov_len = k;
#ifdef TERMINATE
	/* message termination from the same arbitrary state (e.g. earlier frames still in the buffer) */
# ifdef TAIL_INLINE
	r = ENCODER_R(&st, &to, 0);
# else
	r = ENCODER(&st, &to, 0);
# endif
	pos = done0;
	if (!code0) { sh[pos] = 1; sh[pos + 1] = 0; end = pos + 2; }
# ifdef TAIL_INLINE
	/* COBS/R: a last data byte greater than the block code replaces the code byte */
	else if (code0 > 1 && sh[pos + code0 - 1] > code0 && sh[pos + code0 - 1] <= MAXLEN) { sh[pos] = sh[pos + code0 - 1]; sh[pos + code0 - 1] = 0; end = pos + code0; }
# endif
	else { sh[pos] = (uint8_t) code0; sh[pos + code0] = 0; end = pos + code0 + 1; }
	V_ASSERT(r == 0, "termination succeeds with ample space");
	V_ASSERT(st.done == end && st.scratch == 0, "the frame is appended behind the already finished data");
	for (i = 0; i < CAP; i++) if (i < end) V_ASSERT(out[i] == sh[i], "earlier finished data kept, frame bytes equal the reference");
	V_WITNESS_END();
	return;
#endif
	r = ENCODER(&st, &to, &from);

	/* reference step on the shadow buffer */
	pos = done0; code = code0 ? code0 : 1; wp = pos + code;
	for (i = 0; i < KMAX; i++) {
		if (i >= k) break;
		if (!in[i]) {
#ifdef ZPE
			/* zero pair: short block followed by two zeros inside the same push */
			if (code > 1 && code < 32 && i + 1 < k && !in[i + 1]) { sh[pos] = (uint8_t) (code + MAXLEN); i++; }
			else
#endif
			sh[pos] = (uint8_t) code;
			pos += code; code = 1; wp = pos + 1;
		}
		else {
			sh[wp++] = in[i]; code++;
			if (code == MAXLEN) { sh[pos] = MAXLEN; pos += MAXLEN; code = 1; wp = pos + 1; }
		}
	}
	sh[pos] = (uint8_t) code;
	end = pos + code;

	V_ASSERT(r == (ssize_t) k, "with ample space every offered byte is consumed");
	V_ASSERT(st.done == pos && st.scratch == code, "encoder state (finished bytes, open block) equals the reference step");
	for (i = 0; i < CAP; i++) {
		if (i < done0) V_ASSERT(out[i] == sh[i], "finished data before the push is untouched");
		else if (i < end) V_ASSERT(out[i] == sh[i], "encoded bytes equal the reference encoding");
	}
	V_WITNESS_END();
}
