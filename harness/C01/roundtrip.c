/*
 * C01 family 1 (E-roundtrip): encode a symbolic message in up to PUSHES pushes under a
 * symbolic output-capacity schedule, terminate, check the frame shape, decode the
 * frame in place with the matching decoder, compare with the message.
 * -DENC=<encoder> -DDEC=<decoder>; N = message bound.
 */
#include "verif.h"
#include <string.h>
#include <sys/uio.h>
#include "convert.h"

#ifndef N
# define N 5
#endif
#ifndef PUSHES
# define PUSHES 2
#endif
#define CAPMAX (2 * N + 6)
#define SLACK N

static uint8_t out[CAPMAX + 4];

/* one push following the documented retry protocol: on MissingBuffer or a short
 * count the caller grants more space and offers the rest again */
static void push(MPT_STRUCT(encode_state) *st, const uint8_t *data, size_t len, size_t *cap)
{
	size_t off = 0;
	int tries;
	for (tries = 0; tries < 2; tries++) {
		struct iovec to, from;
		ssize_t r;
		to.iov_base = out; to.iov_len = *cap;
		from.iov_base = (void *) (data + off); from.iov_len = len - off;
		r = ENC(st, &to, &from);
		if (r == MPT_ERROR(MissingBuffer)) { V_ASSERT(*cap < CAPMAX, "encoder accepts data when the full space is granted"); *cap = CAPMAX; continue; }
		V_ASSERT(r >= 0, "encoder accepts an admitted message part");
		V_ASSERT((size_t) r <= len - off, "encoder consumes no more than offered");
		V_ASSERT(st->done + st->scratch <= *cap, "encoder state stays inside the granted space");
		off += r;
		if (off == len) return;
		V_ASSERT(*cap < CAPMAX, "encoder consumes everything when the full space is granted");
		*cap = CAPMAX;
	}
	V_ASSERT(off == len, "every byte offered is eventually consumed");
}

void harness(void)
{
	MPT_STRUCT(encode_state) st = MPT_ENCODE_INIT;
	MPT_STRUCT(decode_state) dec = MPT_DECODE_INIT;
	uint8_t m[N];
	size_t n = V_IN_RANGE("n", 0, N), s1 = V_IN_RANGE("s1", 0, N), s2 = V_IN_RANGE("s2", 0, N);
	size_t cap = V_IN_RANGE("cap", 0, CAPMAX), i, flen;
	struct iovec to, src;
	ssize_t r;
	int d;

	V_ASSUME(s1 <= s2 && s2 <= n);
	for (i = 0; i < N; i++) m[i] = V_IN_U8("m");
	for (i = 0; i < CAPMAX + 4; i++) out[i] = 0xA5;
#ifdef NO_DELIM
	/* text framing admits messages without the delimiter byte */
	for (i = 0; i < N; i++) if (i < n) V_ASSUME(m[i] != 0);
#endif
	if (s1) push(&st, m, s1, &cap);
#if PUSHES >= 3
	if (s2 > s1) push(&st, m + s1, s2 - s1, &cap);
	if (n > s2) push(&st, m + s2, n - s2, &cap);
#else
	V_ASSUME(s2 == s1);
	if (n > s1) push(&st, m + s1, n - s1, &cap);
#endif
	/* terminate */
	to.iov_base = out; to.iov_len = cap;
	r = ENC(&st, &to, 0);
	if (r == MPT_ERROR(MissingBuffer)) {
		V_ASSERT(cap < CAPMAX, "termination succeeds when the full space is granted");
		cap = CAPMAX; to.iov_len = cap;
		r = ENC(&st, &to, 0);
	}
	V_ASSERT(r >= 0, "termination succeeds");
	flen = st.done;
	V_ASSERT(st.scratch == 0, "no unfinished data after termination");
	V_ASSERT(flen >= 1 && flen <= cap, "finished frame lies inside the granted space");
	for (i = 0; i < CAPMAX; i++) {
		if (i + 1 < flen) V_ASSERT(out[i] != 0, "no zero byte inside the frame");
	}
	V_ASSERT(out[flen - 1] == 0, "frame ends with its delimiter");
	for (i = 0; i < CAPMAX + 4; i++) if (i >= cap) V_ASSERT(out[i] == 0xA5, "nothing written beyond the granted space");

	/* decode in place; the frame is preceded by SLACK already consumed bytes, the
	 * buffer space a reader grants for framings whose decoded form is longer than
	 * the encoded one (zero pairs) */
	{
	static uint8_t rd[SLACK + CAPMAX];
	for (i = 0; i < CAPMAX; i++) rd[SLACK + i] = out[i];
	dec.curr = SLACK;
	src.iov_base = rd; src.iov_len = SLACK + flen;
	d = DEC(&dec, &src, 1);
	V_ASSERT(d == 1, "decoder delivers a message for a finished frame");
	V_ASSERT(dec.data.msg == (ssize_t) n, "decoded length equals the message length");
	V_ASSERT(dec.data.pos + n <= SLACK + flen, "decoded message lies inside the consumed input");
	for (i = 0; i < N; i++) if (i < n) V_ASSERT(rd[dec.data.pos + i] == m[i], "decoded bytes equal the message");
	}
	V_WITNESS_END();
}
