/*
 * C01 family 5: the bundled Python client's COBS encoder (mpt.py: encode_cobs),
 * translated from the Python AST by engine/py2c.py on every run (PY_GEN = the
 * generated file).  Message = PREFIX concrete non-zero bytes followed by <= T
 * symbolic bytes (so that the 254-byte block boundary is inside the range);
 * the produced frame must contain no zero except its final delimiter and must
 * decode (independent reference decoder cobs_ref.h) to exactly the message.
 */
#include "verif.h"
#include <stdint.h>
#include <stddef.h>
#include "cobs_ref.h"

#ifndef PREFIX
# define PREFIX 0
#endif
#ifndef T
# define T 4
#endif
#define MSGMAX (PREFIX + T)
#define CAPV (MSGMAX + MSGMAX / 254 + 8)

static uint8_t py_msg[MSGMAX + 1];
static size_t py_msglen;
static uint8_t py_buf[CAPV];
static size_t py_len;
static int py_fault;
static void py_append(long v) { if (v < 0 || v > 255 || py_len >= CAPV) { py_fault = 1; return; } py_buf[py_len++] = (uint8_t) v; }
static long py_get(long i) { if (i < 0) i += (long) py_len; if (i < 0 || (size_t) i >= py_len) { py_fault = 1; return 0; } return py_buf[i]; }
static void py_set(long i, long v) { if (i < 0) i += (long) py_len; if (i < 0 || (size_t) i >= py_len || v < 0 || v > 255) { py_fault = 1; return; } py_buf[i] = (uint8_t) v; }
#define PY_SMALL(x) do { if ((x) < -65536 || (x) > 65536) py_fault = 1; } while (0)
#include PY_GEN

#ifdef PY_VALIDATE
/* translator validation driver: message bytes as hex on stdin-less argv, prints the frame */
#include <stdio.h>
#include <stdlib.h>
int main(int argc, char **argv)
{
	size_t i;
	const char *h = argc > 1 ? argv[1] : "";
	for (py_msglen = 0; h[0] && h[1] && py_msglen < MSGMAX; h += 2, py_msglen++) { unsigned v; sscanf(h, "%2x", &v); py_msg[py_msglen] = (uint8_t) v; }
	py_encode_cobs();
	if (py_fault) { printf("FAULT\n"); return 0; }
	for (i = 0; i < py_len; i++) printf("%02x", py_buf[i]);
	printf("\n");
	return 0;
}
#else
void harness(void)
{
	static uint8_t out[MSGMAX + 2];
	size_t i, t = V_IN_RANGE("tail", 0, T), olen = 0, used = 0;
	int r;
	for (i = 0; i < PREFIX; i++) py_msg[i] = (uint8_t) (1 + (i % 250));
	for (i = 0; i < T; i++) py_msg[PREFIX + i] = V_IN_U8("m");
	py_msglen = PREFIX + t;
	py_encode_cobs();
	V_ASSERT(!py_fault, "encoder stays inside its byte vector (no IndexError / value error)");
	V_ASSERT(py_len >= 2 && py_buf[py_len - 1] == 0, "frame ends with the delimiter");
	for (i = 0; i < CAPV; i++) if (i + 1 < py_len) V_ASSERT(py_buf[i] != 0, "no zero byte inside the frame");
#if PREFIX >= 254
	/* the first 254 message bytes are concrete and non-zero: a correct frame starts with the
	 * maximal block (code 0xFF + those 254 bytes, no implied zero); the reference decoder is
	 * applied to the remainder, which keeps its loops short */
	V_ASSERT(py_len > 255 && py_buf[0] == 0xFF, "a run of 254 non-zero bytes is encoded as one maximal block");
	for (i = 0; i < 254; i++) V_ASSERT(py_buf[1 + i] == py_msg[i], "maximal block carries the first 254 message bytes");
	r = ref_decode(REF_COBS, py_buf + 255, py_len - 255, out, &olen, &used);
	V_ASSERT(r == 1 && used == py_len - 255, "rest of the frame is well-formed");
	V_ASSERT(olen == py_msglen - 254, "decoded length equals the message length");
	for (i = 0; i < MSGMAX - 254; i++) if (i < olen) V_ASSERT(out[i] == py_msg[254 + i], "decoded bytes equal the message");
#else
	r = ref_decode(REF_COBS, py_buf, py_len, out, &olen, &used);
	V_ASSERT(r == 1 && used == py_len, "frame is a well-formed COBS frame");
	V_ASSERT(olen == py_msglen, "decoded length equals the message length");
	for (i = 0; i < MSGMAX; i++) if (i < py_msglen) V_ASSERT(out[i] == py_msg[i], "decoded bytes equal the message");
#endif
	V_WITNESS_END();
}
#endif
