/*
 * C20 (kind: axis): one or two consecutive mpt_axis_set() calls on an axis whose
 * bytes are fully symbolic (title pointer excluded: no heap), each from a
 * contract-stub source; after every call
 *  - bytes outside the property's storage are unchanged (the "intervals"
 *    property additionally owns the TransformLg bit of `format`),
 *  - a refused value (negative result) leaves the object bit-identical,
 *  - an accepted value reads back through mpt_axis_get() as that value,
 *  - reset (NULL source) or an empty value restores the documented default.
 * Source = convertable whose convert() answers a request for its held type
 * ('d','f','n','y','c','k' = one-character key, 's' = text) with a symbolic
 * value, with "empty" (length 0), and refuses every other type without writing.
 */
#include "verif.h"
#include <string.h>
#include <strings.h>
#include <sys/uio.h>
#include "types.h"
#include "object.h"
#include "layout.h"

#ifndef STEPS
# define STEPS 2
#endif

static int held, held_empty;
static double v_d; static float v_f; static int16_t v_n; static uint8_t v_y; static char v_c;
static char v_s[5]; static const char *v_sp;
static int h_conv(MPT_INTERFACE(convertable) *c, MPT_TYPE(type) t, void *p)
{
	(void) c;
	if ((int) t != held) return MPT_ERROR(BadType);
	if (held_empty) return 0;
	switch (held) {
	case 'd': if (p) *(double *) p = v_d; return sizeof(double);
	case 'f': if (p) *(float *) p = v_f; return sizeof(float);
	case 'n': if (p) *(int16_t *) p = v_n; return 2;
	case 'y': if (p) *(uint8_t *) p = v_y; return 1;
	case 'c': if (p) *(char *) p = v_c; return 1;
	case 'k':
	case 's': if (p) *(const char **) p = v_sp; return 's';
	}
	return MPT_ERROR(BadType);
}
static const MPT_INTERFACE_VPTR(convertable) h_cv = { h_conv };
int atexit(void (*fn)(void)) { (void) fn; return 0; }
int mpt_log(MPT_INTERFACE(logger) *l, const char *f, int t, const char *fmt, ...) { (void) l; (void) f; (void) t; (void) fmt; return 0; }

#define NP 9
static const char *setname[NP] = { "begin", "end", "tlen", "exp", "intv", "sub", "dec", "lpos", "tpos" };
static const char *getname[NP] = { "begin", "end", "tlen", "exponent", "intervals", "subtick", "decimals", "lpos", "tpos" };
static const size_t offs[NP] = { MPT_offset(axis, begin), MPT_offset(axis, end), MPT_offset(axis, tlen), MPT_offset(axis, exp),
                                 MPT_offset(axis, intv), MPT_offset(axis, sub), MPT_offset(axis, dec), MPT_offset(axis, lpos), MPT_offset(axis, tpos) };
static const size_t fsz[NP] = { 8, 8, 4, 2, 1, 1, 1, 1, 1 };
static const int ftype[NP] = { 'd', 'd', 'f', 'n', 'y', 'y', 'y', 'c', 'c' };

static int is_log(const char *s)
{
	return s && (s[0] == 'l' || s[0] == 'L') && (s[1] == 'o' || s[1] == 'O') && (s[2] == 'g' || s[2] == 'G');
}

static void step(MPT_STRUCT(axis) *ax)
{
	MPT_STRUCT(axis) before;
	MPT_INTERFACE(convertable) src = { &h_cv };
	MPT_STRUCT(property) pr;
	unsigned char *raw = (unsigned char *) ax, *rb = (unsigned char *) &before;
	size_t i, p = V_IN_RANGE("property", 0, NP - 1);
	int reset = V_IN_BOOL("reset"), r, g, dflt;
	static const int kinds[7] = { 'd', 'f', 'n', 'y', 'c', 'k', 's' };

	held = kinds[V_IN_RANGE("held_type", 0, 6)];
	held_empty = V_IN_BOOL("empty_value");
	v_d = v_in_double("d"); v_f = v_in_float("f"); v_n = V_IN_I16("n"); v_y = V_IN_U8("y"); v_c = (char) V_IN_U8("c");
	for (i = 0; i < 4; i++) v_s[i] = (char) V_IN_U8("text");
	v_s[4] = 0;
	v_sp = V_IN_BOOL("null_text") ? (const char *) 0 : (const char *) v_s;
	V_ASSUME(v_d == v_d && v_f == v_f);   /* NaN compares unequal to itself */

	memcpy(&before, ax, sizeof(*ax));
	r = mpt_axis_set(ax, setname[p], reset ? 0 : &src);

	for (i = 0; i < sizeof(*ax); i++) {
		if (i >= offs[p] && i < offs[p] + fsz[p]) continue;
		if (p == 4 && i == MPT_offset(axis, format)) {
			V_ASSERT((raw[i] & ~MPT_ENUM(TransformLg)) == (rb[i] & ~MPT_ENUM(TransformLg)), "no other property of the object changes");
			continue;
		}
		V_ASSERT(raw[i] == rb[i], "no other property of the object changes");
	}
	if (r < 0) {
		for (i = 0; i < sizeof(*ax); i++) V_ASSERT(raw[i] == rb[i], "refused value leaves the object unchanged");
		return;
	}
	pr.name = getname[p]; pr.desc = 0;
	g = mpt_axis_get(ax, &pr);
	V_ASSERT(g >= 0, "listed property can be read");
	dflt = reset || held_empty;
	if (p == 4) {
		if (held == 's' && !v_sp) dflt = 1;   /* a text source without text is an empty value */
		/* intervals: a count, or the text "log" */
		if (!dflt && held == 's') {
			V_ASSERT(is_log(v_sp), "text other than log is not a value of intervals");
			V_ASSERT(pr.val._type == 's' && pr.val._addr && is_log(*(const char * const *) pr.val._addr), "log reads back as log");
			return;
		}
		V_ASSERT(!(ax->format & MPT_ENUM(TransformLg)), "a count (or the default) replaces an earlier log setting");
		V_ASSERT(pr.val._type == 'y' && pr.val._addr == raw + offs[p], "getter names the property's storage");
		if (dflt) V_ASSERT(ax->intv == 0, "reset restores the default interval count");
		else { V_ASSERT(held == 'y', "only a byte count or text is accepted for intervals"); V_ASSERT(ax->intv == v_y, "count reads back exactly"); }
		return;
	}
	V_ASSERT(pr.val._type == ftype[p], "getter reports the property's type");
	V_ASSERT(pr.val._addr == raw + offs[p], "getter names the property's storage");
	switch (p) {
	case 0: case 1:
		if (dflt) V_ASSERT(*(const double *) pr.val._addr == (p ? 1.0 : 0.0), "reset restores the default range bound");
		else { V_ASSERT(held == 'd', "only a double is accepted"); V_ASSERT(*(const double *) pr.val._addr == v_d, "double reads back exactly"); }
		break;
	case 2:
		if (dflt) V_ASSERT(*(const float *) pr.val._addr == 0.3f, "reset restores the default tick length");
		else { V_ASSERT(held == 'f', "only a float is accepted"); V_ASSERT(*(const float *) pr.val._addr == v_f, "float reads back exactly"); }
		break;
	case 3:
		if (dflt) V_ASSERT(*(const int16_t *) pr.val._addr == 0, "reset restores the default exponent");
		else { V_ASSERT(held == 'n', "only an int16 is accepted"); V_ASSERT(*(const int16_t *) pr.val._addr == v_n, "exponent reads back exactly"); }
		break;
	case 5: case 6:
		if (dflt) V_ASSERT(*(const uint8_t *) pr.val._addr == 0, "reset restores the default count");
		else { V_ASSERT(held == 'y', "only a byte is accepted"); V_ASSERT(*(const uint8_t *) pr.val._addr == v_y, "byte reads back exactly"); }
		break;
	default:
		if (dflt) V_ASSERT(*(const char *) pr.val._addr == 0, "reset restores the default direction");
		else if (held == 'c') V_ASSERT(*(const char *) pr.val._addr == v_c, "character reads back exactly");
		else { V_ASSERT(held == 'k', "only a character or key is accepted"); V_ASSERT(*(const char *) pr.val._addr == (v_sp ? v_sp[0] : 0), "first key character reads back"); }
	}
}

void harness(void)
{
	MPT_STRUCT(axis) ax;
	unsigned char *raw = (unsigned char *) &ax;
	size_t i;
	int s;

	for (i = 0; i < sizeof(ax); i++) raw[i] = V_IN_U8("object");
	ax._title = 0;
	for (s = 0; s < STEPS; s++) step(&ax);
	V_WITNESS_END();
}
