/*
 * C20 (colour text): mpt_color_parse on a symbolic text of <= 8 characters over
 * {#, 0, 8, f, a, g, space, NUL} plus the colour names.  Accepted text: the
 * consumed length never exceeds the text length (no read past the terminator:
 * the text sits in an exactly sized object), the colour depends only on the
 * consumed characters (parsing the consumed prefix alone gives the same 4 bytes).
 */
#include "verif.h"
#include <string.h>
#include <stdlib.h>
#include <sys/uio.h>
#include "types.h"
#include "layout.h"
#ifndef VERIF_REPLAY
#include <inttypes.h>
/* CBMC ships no strtoumax: reference body for the only use here (base 16, the
 * caller passes two characters); ISO C semantics: optional blanks and sign are
 * not produced by the caller's two-character buffer except as invalid digits */
uintmax_t strtoumax(const char *s, char **end, int base)
{
	uintmax_t v = 0; const char *p = s; int any = 0;
	while (*p == ' ' || *p == '\t' || *p == '\n') p++;
	if (*p == '+') p++;
	else if (*p == '-') { /* negated value: never a valid colour component */ if (end) *end = (char *) s; return 0; }
	if (base == 16 && p[0] == '0' && (p[1] == 'x' || p[1] == 'X')) p += 2;
	for (;; p++) {
		int d;
		if (*p >= '0' && *p <= '9') d = *p - '0';
		else if (*p >= 'a' && *p <= 'f') d = *p - 'a' + 10;
		else if (*p >= 'A' && *p <= 'F') d = *p - 'A' + 10;
		else break;
		if (d >= base) break;
		v = v * (uintmax_t) base + (uintmax_t) d; any = 1;
	}
	if (end) *end = (char *) (any ? p : s);
	return v;
}
#endif
#ifndef TL
# define TL 8
#endif
#ifdef HEXFORM
/* value oracle for the html forms: '#' followed by HEXFORM (6 or 8) symbolic hex digits;
 * the components are the digit pairs in the order red, green, blue[, alpha]; six digits
 * denote an opaque colour */
static unsigned hv(char c) { return (c >= '0' && c <= '9') ? (unsigned) (c - '0') : (c >= 'a' && c <= 'f') ? (unsigned) (c - 'a' + 10) : (unsigned) (c - 'A' + 10); }
void harness(void)
{
	static const char hx[8] = { '0', '8', 'f', 'a', 'F', '3', '9', 'C' };
	char txt[HEXFORM + 2];
	MPT_STRUCT(color) c = { 1, 2, 3, 4 };
	unsigned comp[4];
	size_t i;
	int r;
	txt[0] = '#';
	for (i = 0; i < HEXFORM; i++) txt[1 + i] = hx[V_IN_RANGE("digit", 0, 7)];
	txt[HEXFORM + 1] = 0;
	for (i = 0; i < HEXFORM / 2; i++) comp[i] = 16 * hv(txt[1 + 2 * i]) + hv(txt[2 + 2 * i]);
	r = mpt_color_parse(&c, txt);
	V_ASSERT(r == HEXFORM + 1, "a complete html colour is accepted and consumed entirely");
	V_ASSERT(c.red == comp[0] && c.green == comp[1] && c.blue == comp[2], "red, green and blue are the first three digit pairs");
	V_ASSERT(c.alpha == (HEXFORM == 8 ? comp[3] : 255u), "alpha is the fourth digit pair, opaque when absent");
	V_WITNESS_END();
}
#else
void harness(void)
{
	static const char al[8] = { '#', '0', '8', 'f', 'a', 'g', ' ', 0 };
	char txt[TL + 1], pre[TL + 1];
	MPT_STRUCT(color) c1 = { 1, 2, 3, 4 }, c2 = { 1, 2, 3, 4 };
	size_t i, n;
	int r, r2;
	for (i = 0; i < TL; i++) txt[i] = al[V_IN_RANGE("ch", 0, 7)];
	txt[TL] = 0;
	n = strlen(txt);
	r = mpt_color_parse(&c1, txt);
	if (r < 0) { V_ASSERT(c1.alpha == 1 && c1.red == 2 && c1.green == 3 && c1.blue == 4, "refused text leaves the colour unchanged"); V_WITNESS_END(); return; }
	V_ASSERT((size_t) r <= n, "consumed length does not exceed the text");
	for (i = 0; i < TL + 1; i++) pre[i] = i < (size_t) r ? txt[i] : 0;
	r2 = mpt_color_parse(&c2, pre);
	V_ASSERT(r2 == r, "the consumed prefix alone parses to the same length");
	V_ASSERT(c1.alpha == c2.alpha && c1.red == c2.red && c1.green == c2.green && c1.blue == c2.blue, "the colour is determined by the consumed characters");
	V_WITNESS_END();
}
#endif
