/*
 * C20 (kind: line): set one property from a contract-stub source value, read it
 * back through the object's property getter, compare; every other byte of the
 * object is unchanged; refused values leave the object bit-identical; a NULL
 * source resets the property to its documented default.
 * Object state fully symbolic.  Source = convertable whose convert() answers a
 * request for its held type with a symbolic value (length > 0), with "empty"
 * (length 0), and refuses every other type.
 */
#include "verif.h"
#include <string.h>
#include <sys/uio.h>
#include "types.h"
#include "object.h"
#include "layout.h"

static int held;                 /* type the source holds: 'f','d','y','i' */
static int held_empty;           /* convert reports length 0 */
static float v_f; static double v_d; static uint8_t v_y; static int32_t v_i;
static int h_conv(MPT_INTERFACE(convertable) *c, MPT_TYPE(type) t, void *p)
{
	(void) c;
	if ((int) t != held) return MPT_ERROR(BadType);
	if (held_empty) return 0;
	switch (held) {
	case 'f': if (p) *(float *) p = v_f; return sizeof(float);
	case 'd': if (p) *(double *) p = v_d; return sizeof(double);
	case 'y': if (p) *(uint8_t *) p = v_y; return 1;
	case 'i': if (p) *(int32_t *) p = v_i; return 4;
	}
	return MPT_ERROR(BadType);
}
static const MPT_INTERFACE_VPTR(convertable) h_cv = { h_conv };
int atexit(void (*fn)(void)) { (void) fn; return 0; }
int mpt_log(MPT_INTERFACE(logger) *l, const char *f, int t, const char *fmt, ...) { (void) l; (void) f; (void) t; (void) fmt; return 0; }

static const char *names[8] = { "x1", "x2", "y1", "y2", "width", "style", "symbol", "size" };
static const size_t offs[8] = { MPT_offset(line, from.x), MPT_offset(line, to.x), MPT_offset(line, from.y), MPT_offset(line, to.y),
                                MPT_offset(line, attr.width), MPT_offset(line, attr.style), MPT_offset(line, attr.symbol), MPT_offset(line, attr.size) };
static const int lmax[8] = { 0, 0, 0, 0, 10, 5, 8, 20 };
static const int ldef[8] = { 0, 0, 0, 0, 1, 1, 0, 10 };

void harness(void)
{
	MPT_STRUCT(line) li, before;
	MPT_INTERFACE(convertable) src = { &h_cv };
	MPT_STRUCT(property) pr;
	unsigned char *raw = (unsigned char *) &li, *rb = (unsigned char *) &before;
	size_t i, p = V_IN_RANGE("property", 0, 7), fsz;
	int reset = V_IN_BOOL("reset"), r, g;
	static const int kinds[4] = { 'f', 'd', 'y', 'i' };

	for (i = 0; i < sizeof(li); i++) raw[i] = V_IN_U8("object");
	before = li;
	held = kinds[V_IN_RANGE("held_type", 0, 3)];
	held_empty = V_IN_BOOL("empty_value");
	v_f = v_in_float("f"); v_d = v_in_double("d"); v_y = V_IN_U8("y"); v_i = V_IN_I32("i");
	V_ASSUME(v_f == v_f && v_d == v_d);   /* NaN compares unequal to itself */

	r = mpt_line_set(&li, names[p], reset ? 0 : &src);
	fsz = p < 4 ? sizeof(float) : 1;
	/* non-interference: bytes outside the property's field */
	for (i = 0; i < sizeof(li); i++) if (i < offs[p] || i >= offs[p] + fsz) V_ASSERT(raw[i] == rb[i], "no other property of the object changes");
	if (r < 0) {
		for (i = 0; i < sizeof(li); i++) V_ASSERT(raw[i] == rb[i], "refused value leaves the object unchanged");
		V_WITNESS_END();
		return;
	}
	/* read back through the getter */
	pr.name = names[p]; pr.desc = 0;
	g = mpt_line_get(&li, &pr);
	V_ASSERT(g >= 0, "listed property can be read");
	V_ASSERT(pr.val._addr == raw + offs[p], "getter names the property's storage");
	if (p < 4) {
		float got = *(const float *) pr.val._addr;
		V_ASSERT(pr.val._type == 'f', "position property is a float");
		if (reset || held_empty) V_ASSERT(got == 0.0f, "reset restores the default position 0");
		else if (held == 'f') V_ASSERT(got == v_f, "float value reads back exactly");
		else if (held == 'd') V_ASSERT(got == (float) v_d, "double value reads back as the nearest float");
		else V_ASSERT(0, "integer sources are not accepted for positions");
	} else {
		uint8_t got = *(const uint8_t *) pr.val._addr;
		V_ASSERT(pr.val._type == 'y', "attribute property is a byte");
		if (reset || held_empty) V_ASSERT(got == ldef[p], "reset restores the documented default");
		else if (held == 'y') { V_ASSERT(v_y <= lmax[p], "values beyond the attribute's range are refused"); V_ASSERT(got == v_y, "attribute value reads back exactly"); }
		else if (held == 'i') { V_ASSERT(v_i >= 0 && v_i <= lmax[p], "values beyond the attribute's range are refused"); V_ASSERT(got == v_i, "attribute value reads back exactly"); }
		else V_ASSERT(0, "floating point sources are not accepted for attributes");
	}
	V_WITNESS_END();
}
