/*
 * C04: one operation through array handle A while handle B shares (or does not
 * share) the buffer; raw byte content.  Model = plain byte vector.  Oracle: B
 * reads exactly its old bytes and length; A equals the model after the op; a
 * refused op leaves A unchanged; -DOP selects the operation, -DSHARED / -DFLAGS
 * the buffer state.
 */
#include "verif.h"
#include <string.h>
#include <errno.h>
#include "types.h"
#include "array.h"

#ifndef UMAX
# define UMAX 4
#endif
#define LMAX 4
#define PMAX 6
#define VMAX (PMAX + LMAX + UMAX)

#define OP_APPEND 1
#define OP_INSERT 2
#define OP_SLICE 3
#define OP_RESERVE 4
#define OP_REDUCE 5
#define OP_BUF_SET 6
#define OP_BUF_CUT 7
#define OP_BUF_INSERT 8
#define OP_CLONE0 9

#ifndef FLAGS
# define FLAGS 0
#endif

static uint8_t old[UMAX];

static size_t alen(const MPT_STRUCT(array) *a) { return a->_buf ? a->_buf->_used : 0; }
static const uint8_t *adat(const MPT_STRUCT(array) *a) { return (const uint8_t *) (a->_buf + 1); }

void harness(void)
{
	MPT_STRUCT(array) A = MPT_ARRAY_INIT, B = MPT_ARRAY_INIT;
	MPT_STRUCT(buffer) *buf;
	#ifdef POS_C
	/* driver-side case split over position and length; content length symbolic */
# ifdef USED_C
	size_t used = USED_C, pos = POS_C, len = LEN_C, i;
# else
	size_t used = V_IN_RANGE("used", 0, UMAX), pos = POS_C, len = LEN_C, i;
# endif
#else
	size_t used = V_IN_RANGE("used", 0, UMAX), pos = V_IN_RANGE("pos", 0, PMAX), len = V_IN_RANGE("len", 0, LMAX), i;
#endif
	uint8_t data[LMAX], model[VMAX];
	size_t mlen = used;
	int accepted = 0, with_data = V_IN_BOOL("with_data");
	uint8_t *d;

	buf = _mpt_buffer_alloc(UMAX, FLAGS);
	V_ASSUME(buf != 0);
	d = (uint8_t *) (buf + 1);
	for (i = 0; i < UMAX; i++) { old[i] = V_IN_U8("old"); d[i] = old[i]; }
	for (i = 0; i < VMAX; i++) model[i] = i < used ? old[i] : 0;
	for (i = 0; i < LMAX; i++) data[i] = V_IN_U8("data");
	buf->_used = used;
	A._buf = buf;
#if SHARED
	V_ASSERT(mpt_array_clone(&B, &A) >= 0 && B._buf == A._buf, "clone shares the buffer");
#endif

#if OP == OP_APPEND
	{
	void *r = mpt_array_append(&A, len, with_data ? (const void *) data : (const void *) 0);
	if (r) { accepted = 1; for (i = 0; i < LMAX; i++) if (i < len) model[used + i] = with_data ? data[i] : 0; mlen = used + len; }
	V_ASSERT(r != 0 || (FLAGS & MPT_ENUM(BufferNoCopy)), "append to a raw array succeeds");
	}
#elif OP == OP_INSERT
	{
	uint8_t *r = mpt_array_insert(&A, pos, len);
	if (r) {
		size_t nl = (pos > used ? pos : used) + len;
		accepted = 1;
		V_ASSERT(r == adat(&A) + pos, "insert returns the gap address");
		/* caller fills the gap */
		for (i = 0; i < LMAX; i++) if (i < len) r[i] = data[i];
		for (i = 0; i < VMAX; i++) {
			uint8_t v;
			if (i >= nl) break;
			if (i < pos) v = i < used ? old[i] : 0;
			else if (i < pos + len) v = data[i - pos];
			else v = old[i - len];
			model[i] = v;
		}
		mlen = nl;
	}
	V_ASSERT(r != 0 || (FLAGS & MPT_ENUM(BufferNoCopy)), "insert into a raw array succeeds");
	}
#elif OP == OP_SLICE
	{
	uint8_t *r = mpt_array_slice(&A, pos, len);
	if (r) {
		accepted = 1;
		V_ASSERT(r == adat(&A) + pos, "slice returns the address of its offset");
		if (pos + len > mlen) mlen = pos + len;
	}
	V_ASSERT(r != 0 || (FLAGS & MPT_ENUM(BufferNoCopy)), "slice of a raw array succeeds");
	}
#elif OP == OP_RESERVE
	{
	MPT_STRUCT(buffer) *r;
	/* reserving less than the content is a truncating request in this library; the
	 * vector-model reading applies to capacities that hold the content */
	V_ASSUME(pos + len >= used);
	r = mpt_array_reserve(&A, pos + len, 0);
	if (r) {
		accepted = 1;
		V_ASSERT(r == A._buf && r->_size >= pos + len, "reserve provides the requested capacity");
		V_ASSERT(r->_used == used, "reserve keeps the content length");
	}
	V_ASSERT(r != 0 || (FLAGS & MPT_ENUM(BufferNoCopy)), "reserve on a raw array succeeds");
	}
#elif OP == OP_REDUCE
	mpt_array_reduce(&A);
	accepted = 1;
#elif OP == OP_BUF_SET
	{
	long r;
	V_ASSUME(!SHARED && !FLAGS);
	r = mpt_buffer_set(A._buf, 0, pos, with_data ? (const void *) data : (const void *) 0, len);
	if (r >= 0) {
		accepted = 1;
		for (i = 0; i < LMAX; i++) if (i < len) model[pos + i] = with_data ? data[i] : 0;
		if (pos + len > mlen) mlen = pos + len;
	} else V_ASSERT(pos + len > A._buf->_size, "set inside the capacity is accepted");
	}
#elif OP == OP_BUF_CUT
	{
	ssize_t r;
	V_ASSUME(!SHARED && !FLAGS);
	r = mpt_buffer_cut(A._buf, pos, len);
	if (r >= 0) {
		size_t cl = len ? len : (used - pos);
		accepted = 1;
		V_ASSERT(pos + len <= used, "cut outside the data is refused");
		for (i = 0; i < VMAX; i++) model[i] = (i < pos) ? old[i] : ((i + cl < used) ? old[i + cl] : 0);
		mlen = used - cl;
	}
	}
#elif OP == OP_BUF_INSERT
	{
	uint8_t *r;
	V_ASSUME(!SHARED && !FLAGS);
	r = mpt_buffer_insert(A._buf, pos, len);
	if (r) {
		size_t nl = (pos > used ? pos : used) + len;
		accepted = 1;
		for (i = 0; i < LMAX; i++) if (i < len) r[i] = data[i];
		for (i = 0; i < VMAX; i++) {
			if (i >= nl) break;
			if (i < pos) model[i] = i < used ? old[i] : 0;
			else if (i < pos + len) model[i] = data[i - pos];
			else model[i] = old[i - len];
		}
		mlen = nl;
	} else V_ASSERT((pos > used ? pos : used) + len > A._buf->_size, "insert inside the capacity is accepted");
	}
#elif OP == OP_CLONE0
	V_ASSERT(mpt_array_clone(&A, 0) >= 0, "dropping a handle succeeds");
	accepted = 1; mlen = 0;
#else
# error OP
#endif
	/* ---- other handle untouched ---- */
#if SHARED
	V_ASSERT(B._buf != 0 && B._buf->_used == used, "other handle keeps its length");
	for (i = 0; i < UMAX; i++) if (i < used) V_ASSERT(adat(&B)[i] == old[i], "other handle reads its old bytes");
	if (accepted && OP != OP_REDUCE && OP != OP_CLONE0 && (OP != OP_RESERVE)) V_ASSERT(A._buf != B._buf || mlen == used, "a modified shared buffer was detached first");
#endif
	/* ---- modified handle equals the model ---- */
	if (!accepted) {
		V_ASSERT(alen(&A) == used, "refused operation keeps the length");
		for (i = 0; i < UMAX; i++) if (i < used) V_ASSERT(adat(&A)[i] == old[i], "refused operation keeps the content");
	} else {
		V_ASSERT(alen(&A) == mlen, "length equals the vector model");
		if (A._buf) {
			V_ASSERT(A._buf->_used <= A._buf->_size, "length within capacity");
			for (i = 0; i < VMAX; i++) if (i < mlen) V_ASSERT(adat(&A)[i] == model[i], "content equals the vector model");
		}
	}
	mpt_array_clone(&A, 0);
	mpt_array_clone(&B, 0);
	V_WITNESS_END();
}
