/*
 * C09 (tree building): three option events appended under a section node with
 * mpt_node_append (real: mpt_path_last, mpt_node_new, mpt_identifier_set, generic
 * list insertion).  Names are chosen symbolically from {a, b} (so repeated names
 * with a different name in between are inside the range).  Oracle: the children
 * appear in event order with exactly the event names; links are consistent; the
 * tree is released without leak or double release.
 */
#include "verif.h"
#include <stdlib.h>
#include <string.h>
#include <sys/uio.h>
#include "types.h"
#include "meta.h"
#include "config.h"
#include "node.h"
#include "parse.h"

#define mpt_gnode_pos verif_gnode_pos_u
static MPT_STRUCT(node) *verif_gnode_pos_u();
#include "node/node_insert.c"
#undef mpt_gnode_pos
static MPT_STRUCT(node) *verif_gnode_pos_u(n, pos, unused)
	const MPT_STRUCT(node) *n; int pos; const MPT_STRUCT(node) *unused;
{
	(void) unused;
	return mpt_gnode_pos(n, pos);
}
MPT_INTERFACE(metatype) *mpt_meta_new(const MPT_STRUCT(value) *v) { (void) v; V_UNREACHABLE("no values in this query"); return 0; }

#define NEV 3
void harness(void)
{
	static const char txt[2][2] = { { 'a', 0 }, { 'b', 0 } };
	MPT_STRUCT(node) *R = mpt_node_new(0), *cur, *ev[NEV], *c;
	int nm[NEV], i;
	V_ASSUME(R != 0);
	cur = R;
	for (i = 0; i < NEV; i++) {
		MPT_STRUCT(path) p = MPT_PATH_INIT;
#ifdef NAMES
		{ static const int seq[NEV] = NAMES; nm[i] = seq[i]; }   /* driver-side case split over the name sequence */
#else
		nm[i] = V_IN_BOOL("name_is_b");
#endif
		p.base = txt[nm[i]]; p.off = 0; p.len = 2; p.sep = '.'; p.assign = 0;
		cur = mpt_node_append(cur, &p, 0, i ? MPT_PARSEFLAG(Option) : MPT_PARSEFLAG(Section), MPT_PARSEFLAG(Option));
		V_ASSERT(cur != 0, "option node created");
		ev[i] = cur;
	}
	c = R->children;
	for (i = 0; i < NEV; i++) {
		V_ASSERT(c == ev[i], "children appear in the order of the option events");
		if (!c) break;
		V_ASSERT(c->parent == R && (i ? c->prev == ev[i - 1] : !c->prev), "links are consistent");
		V_ASSERT(mpt_identifier_compare(&c->ident, txt[nm[i]], 1) == 0, "node carries the option name");
		c = c->next;
	}
	V_ASSERT(c == 0, "no further children");
	V_ASSERT(mpt_node_destroy(R) == 0, "tree released");
	V_WITNESS_END();
}
