/*
 * C03 family 1: decoder on arbitrary bytes, delivered in two steps.
 * in[0..n) fully symbolic (n <= N).  Call A sees the first n1 bytes, and if it
 * reports "need more" call B sees all n bytes (resume).  Oracle: independent
 * reference decoder (cobs_ref.h) on the pristine bytes; guards around the buffer;
 * bytes at and behind the decoder's input position are never modified; return
 * value in the documented set.  -DDEC=<decoder> -DVARIANT=<REF_*>.
 */
#include "verif.h"
#include <string.h>
#include <sys/uio.h>
#include "convert.h"
#include "cobs_ref.h"

#ifndef N
# define N 6
#endif
#ifndef TWO_STEP
# define TWO_STEP 1
#endif
#define G 4

static uint8_t buf[G + N + G];
static uint8_t orig[N];

static void intact(const MPT_STRUCT(decode_state) *dec, size_t avail)
{
	size_t i;
	for (i = 0; i < G; i++) V_ASSERT(buf[i] == 0xC3 && buf[G + N + i] == 0xC3, "memory around the caller's buffer untouched");
	V_ASSERT(dec->curr <= avail, "input position inside the delivered bytes");
	for (i = 0; i < N; i++) if (i >= dec->curr) V_ASSERT(buf[G + i] == orig[i], "decoder writes only into the already consumed part");
}
static void judge(int r, const MPT_STRUCT(decode_state) *dec, size_t avail)
{
	uint8_t ref[2 * N + 2];
	size_t rlen, rused, i;
	int rr = ref_decode(VARIANT, orig, avail, ref, &rlen, &rused);
	V_ASSERT(r == 1 || r == 0 || r == MPT_ERROR(BadValue) || r == MPT_ERROR(MissingData) || r == MPT_ERROR(MissingBuffer)
	         || r == MPT_ERROR(BadArgument) || r == MPT_ERROR(BadOperation), "return value in the documented set");
	if (r == 1) {
		V_ASSERT(rr == 1, "a message is delivered only for a well-formed frame");
		V_ASSERT(dec->data.msg >= 0 && (size_t) dec->data.msg == rlen, "delivered length equals the reference");
		V_ASSERT(dec->curr == rused, "consumed input equals the frame length");
		V_ASSERT(dec->data.pos + rlen <= dec->curr, "message lies in the consumed part");
		for (i = 0; i < 2 * N; i++) if (i < rlen) V_ASSERT(buf[G + dec->data.pos + i] == ref[i], "delivered bytes equal the reference");
	}
	else if (rr == 1) {
		/* well-formed frame not delivered: only for lack of output space (zero pairs expand) */
		V_ASSERT(r == MPT_ERROR(MissingBuffer) && VARIANT >= REF_ZPE, "a well-formed complete frame is delivered");
	}
	if (rr == -1) V_ASSERT(r < 0, "malformed input is reported as an error");
}

void harness(void)
{
	MPT_STRUCT(decode_state) dec = MPT_DECODE_INIT;
	size_t n = V_IN_RANGE("n", 0, N), n1 = V_IN_RANGE("n1", 0, N), i;
	struct iovec src;
	int r;

	V_ASSUME(n1 <= n);
#if !TWO_STEP
	V_ASSUME(n1 == n);
#endif
	for (i = 0; i < G; i++) buf[i] = buf[G + N + i] = 0xC3;
	for (i = 0; i < N; i++) { orig[i] = V_IN_U8("in"); buf[G + i] = orig[i]; }
	src.iov_base = buf + G;
	src.iov_len = n1;
	r = DEC(&dec, &src, 1);
	intact(&dec, n1);
	if (r == 0 && n1 < n) {
		/* more bytes arrive; resume */
		src.iov_len = n;
		r = DEC(&dec, &src, 1);
		intact(&dec, n);
		judge(r, &dec, n);
	} else {
		judge(r, &dec, n1);
	}
	V_WITNESS_END();
}
