/*
 * C01.3 / C03.2: one decoder call from an arbitrary resume state at the REAL block
 * constants.  State numbers range freely (code 1..255, pos 0..254); the memory
 * window is small: message so far 1 <= L <= 3 bytes (L = 0, the start of a message with its alignment step, is covered by arbitrary.c) at offset P0 <= 2, slack (free
 * bytes between decoded end and input position) 1..3, then K <= 3 new input
 * bytes, fully symbolic (zeros inside blocks included).  Oracle: reference step
 * function written from the framing rules.  Covers the 254/255, 222/223 (0xDE/
 * 0xDF), 0xE0/0xE1 boundaries for every position of the cut.
 * -DPREVIEW: a preview call (sourcelen 0) is issued before the regular call; the
 * oracle is unchanged (preview + regular call == regular call).
 */
#include "verif.h"
#include <string.h>
#include <sys/uio.h>
#include "convert.h"
#include "cobs_ref.h"

#define KMAX 3
#define BUFSZ (2 + 3 + 3 + KMAX)
#define G 4

static uint8_t buf[G + BUFSZ + G], orig[BUFSZ];

#define ZPE (VARIANT >= REF_ZPE)
#define TAIL (VARIANT & 1)
#define MAXLEN (ZPE ? 0xDFu : 0xFFu)
static unsigned len_data(unsigned c) { return (!ZPE || c <= 0xDF) ? c - 1 : c - 0xE0; }
static unsigned len_zero(unsigned c, unsigned next) { return (ZPE && c >= 0xE0) ? 2 : ((c < MAXLEN && next) ? 1 : 0); }

void harness(void)
{
	MPT_STRUCT(decode_state) dec = MPT_DECODE_INIT;
	size_t p0 = V_IN_RANGE("p0", 0, 2), L = V_IN_RANGE("L", 1, 3), slack = V_IN_RANGE("slack", 1, 3), k = V_IN_RANGE("k", 0, KMAX);
	unsigned code = (unsigned) V_IN_RANGE("code", 1, 255), pos = (unsigned) V_IN_RANGE("pos", 0, 254);
	size_t curr = p0 + L + slack, i;
	struct iovec src;
	int r;
	/* reference results */
	uint8_t app[KMAX * 2 + 2];
	size_t napp = 0, used = 0, proc = slack;
	unsigned rcode = code, rpos = pos;
	int rstat = 0;   /* 0 need more, 1 message, -1 inline zero error, -2 missing buffer, 2 stalled (no space for data) */

	V_ASSUME(pos <= len_data(code) + 1);
	if (pos > len_data(code)) V_ASSUME(ZPE && code >= 0xE0);   /* zero phase resume only after MissingBuffer with a pair */
	for (i = 0; i < G; i++) buf[i] = buf[G + BUFSZ + i] = 0xC3;
	for (i = 0; i < BUFSZ; i++) { orig[i] = V_IN_U8("mem"); buf[G + i] = orig[i]; }

	/* ---- reference step over x = orig[curr .. curr+k) ---- */
	{
	const uint8_t *x = orig + curr;
	size_t xi = 0;
	while (1) {
		unsigned dl = len_data(rcode), z, next;
		int stop = 0;
		while (rpos < dl) {
			uint8_t b;
			if (xi == k) { rstat = 0; stop = 1; break; }
			b = x[xi];
			if (!b) {
				if (TAIL) { app[napp++] = (uint8_t) rcode; xi++; rstat = 1; }
				else rstat = -1;
				stop = 1; break;
			}
			if (!proc) { rstat = 2; stop = 1; break; }
			xi++;
			app[napp++] = b; rpos++;
		}
		if (stop) break;
		if (xi == k) { rstat = 0; break; }
		next = x[xi];
		z = len_zero(rcode, next);
		while (rpos < dl + z) {
			if (!proc) { rstat = -2; stop = 1; break; }
			app[napp++] = 0; rpos++; proc--;
		}
		if (stop) break;
		xi++; proc++;
		if (!next) { rstat = 1; break; }
		rcode = next; rpos = 0;
	}
	used = xi;
	}

	/* ---- real decoder ---- */
	dec._ctx = ((uintptr_t) pos << 8) | code;
	dec.curr = curr;
	dec.data.pos = p0; dec.data.len = L; dec.data.msg = -1;
	src.iov_base = buf + G; src.iov_len = curr + k;
#ifdef PREVIEW
	/* a preview call (no source parts: what mpt_queue_peek() issues) may decode ahead inside the
	 * current block but must not change what the following regular call delivers */
	(void) DEC(&dec, &src, 0);
	V_ASSERT(dec.data.msg < 0, "a preview call does not complete a message");
#endif
	r = DEC(&dec, &src, 1);

	for (i = 0; i < G; i++) V_ASSERT(buf[i] == 0xC3 && buf[G + BUFSZ + i] == 0xC3, "memory around the buffer untouched");
	for (i = 0; i < BUFSZ; i++) {
		if (i < p0 + L) V_ASSERT(buf[G + i] == orig[i], "earlier content and already decoded bytes unchanged");
		if (i >= curr + used) V_ASSERT(buf[G + i] == orig[i], "unconsumed input unchanged");
	}
	if (rstat == 1) {
		V_ASSERT(r == 1, "complete frame delivers a message");
		V_ASSERT(dec.data.msg >= 0 && (size_t) dec.data.msg == L + napp && dec.data.len == L + napp, "message length = previous + appended");
		V_ASSERT(dec._ctx == 0, "decoder state reset after the message");
	} else if (rstat == -1) {
		V_ASSERT(r < 0, "zero inside a block is reported as an error");
	} else if (rstat == -2) {
		V_ASSERT(r == MPT_ERROR(MissingBuffer), "lack of space for implied zeros is reported");
	} else {
		V_ASSERT(r == 0, "incomplete input asks for more");
	}
	if (rstat != -1) {
		V_ASSERT(dec.data.pos == p0, "message start unchanged");
		V_ASSERT(dec.data.len == L + napp, "decoded length advanced by the appended bytes");
		for (i = 0; i < KMAX * 2 + 2; i++) if (i < napp) V_ASSERT(buf[G + p0 + L + i] == app[i], "appended bytes equal the reference");
		V_ASSERT(dec.curr == curr + used, "input position advanced by the consumed bytes");
		if (rstat != 1) V_ASSERT((dec._ctx & 0xff) == rcode && ((dec._ctx >> 8) & 0xff) == rpos, "resume state (code, position) equals the reference");
	}
	V_WITNESS_END();
}
