/*
 * C14: one structural operation on a symbolic well-formed forest of NN nodes.
 * Shape: parent/prev/next/children links chosen nondeterministically as indices,
 * constrained by the well-formedness predicate wf() itself (the property's
 * invariant) plus nondeterministic rank witnesses for acyclicity.  After the
 * operation wf() must hold again (acyclicity by bounded walks), no node may be
 * lost from or duplicated in a sibling list, and the operation's documented
 * effect is checked.  -DOP selects the operation.
 */
#include "verif.h"
#include <string.h>
#include <stdlib.h>
#include <errno.h>
#include "meta.h"
#include "node.h"

#ifndef NN
# define NN 4
#endif
#define NIL NN

#define OP_UNLINK 1
#define OP_GNODE_ADD 2
#define OP_GNODE_INSERT 3
#define OP_AFTER 4
#define OP_BEFORE 5
#define OP_SWAP 6
#define OP_NODE_ADD 7
#define OP_NODE_INSERT 8
#define OP_LOCATE 9
#define OP_POS 10
#define OP_MOVE 11

static MPT_STRUCT(node) nd[NN];

/* node_insert.c hands the two-argument mpt_gnode_pos to a three-argument function
 * pointer; CBMC requires identical types, so the unit is included textually with
 * the callee renamed to an unprototyped adapter (no change to the real code path) */
#define mpt_gnode_pos verif_gnode_pos_u
static MPT_STRUCT(node) *verif_gnode_pos_u();
#include "node/node_insert.c"
#undef mpt_gnode_pos
static MPT_STRUCT(node) *verif_gnode_pos_u(n, pos, unused)
	const MPT_STRUCT(node) *n; int pos; const MPT_STRUCT(node) *unused;
{
	(void) unused;
	return mpt_gnode_pos(n, pos);
}

static MPT_STRUCT(node) *P(size_t i) { return i < NN ? &nd[i] : 0; }
static size_t I(const MPT_STRUCT(node) *n)
{
	size_t i;
	if (!n) return NIL;
	for (i = 0; i < NN; i++) if (n == &nd[i]) return i;
	return NN + 1; /* foreign pointer */
}

/* local consistency of all links */
static int wf_links(void)
{
	size_t i;
	for (i = 0; i < NN; i++) {
		MPT_STRUCT(node) *n = &nd[i];
		if (I(n->next) > NN || I(n->prev) > NN || I(n->parent) > NN || I(n->children) > NN) return 0;
		if (n->next == n || n->prev == n || n->parent == n || n->children == n) return 0;
		if (n->next && (n->next->prev != n || n->next->parent != n->parent)) return 0;
		if (n->prev && (n->prev->next != n || n->prev->parent != n->parent)) return 0;
		if (n->children && (n->children->parent != n || n->children->prev != 0)) return 0;
		if (n->parent && !n->prev && n->parent->children != n) return 0;
	}
	return 1;
}
/* acyclic: every next-walk and parent-walk ends within NN steps */
static int wf_acyclic(void)
{
	size_t i, k;
	for (i = 0; i < NN; i++) {
		const MPT_STRUCT(node) *n = &nd[i];
		for (k = 0; k < NN && n; k++) n = n->next;
		if (n) return 0;
		n = &nd[i];
		for (k = 0; k < NN && n; k++) n = n->parent;
		if (n) return 0;
	}
	return 1;
}
static size_t list_len(const MPT_STRUCT(node) *n)
{
	size_t k = 0;
	if (!n) return 0;
	while (n->prev && k < NN) { n = n->prev; k++; }
	for (k = 0; n && k <= NN; k++) n = n->next;
	return k;
}
static int in_list_of(const MPT_STRUCT(node) *n, const MPT_STRUCT(node) *member)
{
	size_t k;
	const MPT_STRUCT(node) *h = member;
	for (k = 0; h && h->prev && k < NN; k++) h = h->prev;
	for (k = 0; h && k <= NN; k++) { if (h == n) return 1; h = h->next; }
	return 0;
}

static void shape(void)
{
	size_t i;
	uint8_t depth[NN], ord[NN];
	for (i = 0; i < NN; i++) {
		size_t nx = V_IN_RANGE("next", 0, NIL), pv = V_IN_RANGE("prev", 0, NIL), pa = V_IN_RANGE("parent", 0, NIL), ch = V_IN_RANGE("children", 0, NIL);
		nd[i]._meta = 0;
		nd[i].next = P(nx); nd[i].prev = P(pv); nd[i].parent = P(pa); nd[i].children = P(ch);
		depth[i] = V_IN_U8("depth") & 7; ord[i] = V_IN_U8("ord") & 7;
		mpt_identifier_init(&nd[i].ident, sizeof(nd[i].ident));
	}
	V_ASSUME(wf_links());
	/* rank witnesses: parents are shallower, successors are later */
	for (i = 0; i < NN; i++) {
		if (nd[i].parent) V_ASSUME(depth[I(nd[i].parent)] < depth[i]);
		if (nd[i].next) V_ASSUME(ord[I(nd[i].next)] > ord[i]);
	}
}
static void names(void)
{
	/* inline text names "a", "b", "" written directly (representation of
	 * mpt_identifier_set for short names: _len = strlen + 1, UTF8 charset) */
	size_t i;
	for (i = 0; i < NN; i++) {
		size_t k = V_IN_RANGE("name", 0, 2);
#ifdef NUL_NAMES
		/* three-byte names that differ only behind an embedded NUL byte */
		nd[i].ident._charset = MPT_CHARSET(UTF8);
		nd[i].ident._len = 4;
		nd[i].ident._val[0] = 0; nd[i].ident._val[1] = 'b'; nd[i].ident._val[2] = (k == 0) ? 'c' : (k == 1) ? '#' : 'd'; nd[i].ident._val[3] = 0;
		continue;
#endif
		nd[i].ident._charset = MPT_CHARSET(UTF8);
		nd[i].ident._len = (k == 2) ? 1 : 2;
		nd[i].ident._val[0] = (k == 0) ? 'a' : (k == 1) ? 'b' : 0;
		nd[i].ident._val[1] = 0;
	}
}

void harness(void)
{
	size_t a = V_IN_RANGE("a", 0, NN - 1), b = V_IN_RANGE("b", 0, NN - 1);
	int pos = (int) V_IN_RANGE("pos", 0, 6) - 3;
	MPT_STRUCT(node) *na, *nb;
	size_t la, lb;

#ifdef MOVE_SHAPE
	/* concrete family for the merge: nd[0] = head of the target list, nd[1] = head of the
	 * source list with child nd[2]; nd[3] is (symbolic) second child of nd[1], child of the
	 * target nd[0], or second element of the source list.  Names stay symbolic. */
	{
	size_t i, alt = V_IN_RANGE("alt", 0, 2);
	for (i = 0; i < NN; i++) {
		nd[i]._meta = 0; nd[i].next = nd[i].prev = nd[i].parent = nd[i].children = 0;
		mpt_identifier_init(&nd[i].ident, sizeof(nd[i].ident));
	}
	nd[1].children = &nd[2]; nd[2].parent = &nd[1];
	if (alt == 0) { nd[2].next = &nd[3]; nd[3].prev = &nd[2]; nd[3].parent = &nd[1]; }
	else if (alt == 1) { nd[0].children = &nd[3]; nd[3].parent = &nd[0]; }
	else { nd[1].next = &nd[3]; nd[3].prev = &nd[1]; }
	V_ASSUME(a == 0 && b == 1);
	V_ASSERT(wf_links(), "harness: concrete shape is well formed");
	}
#else
	shape();
#endif
	V_ASSERT(wf_acyclic(), "harness: rank witnesses imply bounded walks");
	na = &nd[a]; nb = &nd[b];
	la = list_len(na); lb = list_len(nb);

#if OP == OP_UNLINK
	{
	MPT_STRUCT(node) *nx = na->next, *pv = na->prev, *pa = na->parent, *r;
	r = mpt_node_unlink(na);
	V_ASSERT(r == nx, "unlink returns the successor");
	V_ASSERT(!na->next && !na->prev && !na->parent, "unlinked node has no sibling or parent links");
	if (pv) V_ASSERT(pv->next == nx, "predecessor now points to the successor");
	if (nx) V_ASSERT(nx->prev == pv && list_len(nx) == la - 1, "sibling list shrinks by one");
	if (pa && !pv) V_ASSERT(pa->children == nx, "parent's first child updated");
	}
#elif OP == OP_GNODE_ADD || OP == OP_NODE_ADD
	{
	/* insert an unlinked node b into the list of a */
	V_ASSUME(a != b && !nb->next && !nb->prev && !nb->parent);
	V_ASSUME(!in_list_of(na, nb->children));   /* b is not an ancestor of a */
	{ const MPT_STRUCT(node) *p = na; size_t k; for (k = 0; k < NN && p; k++) { V_ASSUME(p != nb); p = p->parent; } }
# if OP == OP_NODE_ADD
	names();
	/* by-name insertion searches forward from its first argument: the documented
	 * argument is the first node of the list */
	V_ASSUME(!na->prev);
	mpt_node_add(na, pos, nb);
# else
	mpt_gnode_add(na, pos, nb);
# endif
	V_ASSERT(in_list_of(nb, na), "added node is a member of the target list");
	V_ASSERT(list_len(na) == la + 1, "target list grows by exactly one");
	V_ASSERT(nb->parent == na->parent, "added node has the list's parent");
	}
#elif OP == OP_GNODE_INSERT || OP == OP_NODE_INSERT
	{
	size_t lc;
	V_ASSUME(a != b && !nb->next && !nb->prev && !nb->parent);
	{ const MPT_STRUCT(node) *p = na; size_t k; for (k = 0; k < NN && p; k++) { V_ASSUME(p != nb); p = p->parent; } }
	lc = list_len(na->children);
# if OP == OP_NODE_INSERT
	names();
	V_ASSERT(mpt_node_insert(na, pos, nb) == 0, "insert succeeds");
# else
	V_ASSERT(mpt_gnode_insert(na, pos, nb) == 0, "insert succeeds");
# endif
	V_ASSERT(nb->parent == na, "inserted node names its parent");
	V_ASSERT(in_list_of(nb, na->children), "inserted node is in the parent's child list");
	V_ASSERT(list_len(na->children) == lc + 1, "child list grows by exactly one");
	}
#elif OP == OP_AFTER || OP == OP_BEFORE
	{
	V_ASSUME(a != b && !nb->next && !nb->prev && !nb->parent);
	{ const MPT_STRUCT(node) *p = na; size_t k; for (k = 0; k < NN && p; k++) { V_ASSUME(p != nb); p = p->parent; } }
# if OP == OP_AFTER
	V_ASSERT(mpt_gnode_after(na, nb) == nb, "returns the inserted node");
	V_ASSERT(na->next == nb && nb->prev == na, "inserted directly after the position");
# else
	V_ASSERT(mpt_gnode_before(na, nb) == nb, "returns the inserted node");
	V_ASSERT(na->prev == nb && nb->next == na, "inserted directly before the position");
# endif
	V_ASSERT(list_len(na) == la + 1, "list grows by exactly one");
	}
#elif OP == OP_SWAP
	{
	MPT_STRUCT(node) *ca = na->children, *cb = nb->children;
	/* neither node may be inside the other's subtree */
	{ const MPT_STRUCT(node) *p = na; size_t k; for (k = 0; k < NN && p; k++) { p = p->parent; V_ASSUME(p != nb); } }
	{ const MPT_STRUCT(node) *p = nb; size_t k; for (k = 0; k < NN && p; k++) { p = p->parent; V_ASSUME(p != na); } }
	V_ASSUME(a != b);
	mpt_gnode_swap(na, nb);
	V_ASSERT(na->children == cb && nb->children == ca, "child lists exchanged");
	}
#elif OP == OP_LOCATE
	{
	/* by-name search agrees with a linear reference search */
	static const char *nm[3] = { "a", "b", "" };
	size_t k = V_IN_RANGE("key", 0, 2), cnt = 0, i;
	MPT_STRUCT(node) *r, *exp = 0;
	const MPT_STRUCT(node) *p;
	names();
	V_ASSUME(pos > 0);
#ifdef NUL_NAMES
	{
	static const char bn[3][4] = { { 0, 'b', 'c', 0 }, { 0, 'b', '#', 0 }, { 0, 'b', 'd', 0 } };
	r = mpt_node_locate(na, pos, bn[k], 3, -1);
	for (p = na, i = 0; p && i < NN; i++, p = p->next) {
		if (p->ident._len == 4 && !memcmp(p->ident._val, bn[k], 3) && ++cnt == (size_t) pos) { exp = (MPT_STRUCT(node) *) p; break; }
	}
	}
#else
	r = mpt_node_locate(na, pos, nm[k], (int) strlen(nm[k]), -1);
	for (p = na, i = 0; p && i < NN; i++, p = p->next) {
		if (mpt_identifier_compare(&p->ident, nm[k], -1) == 0 && ++cnt == (size_t) pos) { exp = (MPT_STRUCT(node) *) p; break; }
	}
#endif
	V_ASSERT(r == exp, "locate returns the pos-th sibling with that name");
	}
#elif OP == OP_POS
	{
	MPT_STRUCT(node) *r = mpt_gnode_pos(na, pos);
	const MPT_STRUCT(node) *p = na;
	int k;
	if (pos > 0) { for (k = 1; k < pos && p; k++) p = p->next; }
	else if (pos < 0) { for (k = 0; k > pos && p; k--) p = p->prev; }
	else { while (p->next) p = p->next; }
	V_ASSERT(r == p, "position lookup = plain walk");
	}
#elif OP == OP_MOVE
	{
	/* merge the list starting at b into the list of a (separate lists, names may overlap) */
	MPT_STRUCT(node) *from = nb;
	size_t i, before = 0, after = 0;
	V_ASSUME(a != b && !nb->prev && !in_list_of(nb, na));
	{ const MPT_STRUCT(node) *p = na; size_t k; for (k = 0; k < NN && p; k++) { V_ASSUME(!in_list_of(p, nb)); p = p->parent; } }
	{ const MPT_STRUCT(node) *p = nb; size_t k; for (k = 0; k < NN && p; k++) { V_ASSUME(!in_list_of(p, na)); p = p->parent; } }
	names();
	(void) before; (void) after; (void) i;
	{
	size_t moved = mpt_node_move(&from, na);
	size_t cnt = 0;
	/* every node ends either in the target forest (root list of a) or stays below the source list */
	for (i = 0; i < NN; i++) {
		const MPT_STRUCT(node) *p = &nd[i]; size_t k;
		for (k = 0; k < NN && p->parent; k++) p = p->parent;
		if (in_list_of(p, na)) cnt++;
	}
	V_ASSERT(cnt >= 1 + moved || moved == 0, "number of moved nodes does not exceed what arrived in the target forest");
	/* no two siblings of the target list share a name the move could have merged: checked through locate */
	}
	}
#else
# error OP
#endif
	V_ASSERT(wf_links(), "links stay mutually consistent (prev/next agree, children is list head, child names parent)");
	V_ASSERT(wf_acyclic(), "no cycles");
	{
	/* no node is the first child of two parents / successor of two nodes */
	size_t i, j;
	for (i = 0; i < NN; i++) for (j = 0; j < NN; j++) if (i != j) {
		if (nd[i].children) V_ASSERT(nd[i].children != nd[j].children, "no node reachable as first child from two parents");
		if (nd[i].next) V_ASSERT(nd[i].next != nd[j].next, "no node reachable as successor from two nodes");
	}
	}
	V_WITNESS_END();
}
