/*
 * C14 (clone): mpt_tree_clone / mpt_list_clone of a heap tree of depth 2 or 3
 * (root R with children A, B; optionally a grandchild C under A), names set.
 * Oracle: the clone exists, has the same shape and names at every depth, its links
 * are mutually consistent (children name their parent, list links agree), it
 * shares no node with the source; both trees are then released (ledger: no leak,
 * no double release).
 */
#include "verif.h"
#include <stdlib.h>
#include <string.h>
#include "meta.h"
#include "node.h"

#define mpt_gnode_pos verif_gnode_pos_u
static MPT_STRUCT(node) *verif_gnode_pos_u();
#include "node/node_insert.c"
#undef mpt_gnode_pos
static MPT_STRUCT(node) *verif_gnode_pos_u(n, pos, unused)
	const MPT_STRUCT(node) *n; int pos; const MPT_STRUCT(node) *unused;
{
	(void) unused;
	return mpt_gnode_pos(n, pos);
}
static int same_name(const MPT_STRUCT(node) *a, const MPT_STRUCT(node) *b)
{
	return mpt_identifier_inequal(&a->ident, &b->ident) == 0;
}
static MPT_STRUCT(node) *mk(const char *name)
{
	MPT_STRUCT(node) *n = mpt_node_new(0);
	V_ASSUME(n != 0);
	V_ASSUME(mpt_identifier_set(&n->ident, name, -1) != 0);
	return n;
}

void harness(void)
{
	MPT_STRUCT(node) *R = mk("r"), *A = mk("a"), *B = mk("b"), *C = 0, *X, *xa, *xb;
	int deep = DEEP, list = LIST;   /* driver-side case split over the four shapes */
	V_ASSERT(mpt_gnode_insert(R, 0, A) == 0 && mpt_gnode_insert(R, 0, B) == 0, "source tree built");
	if (deep) { C = mk("c"); V_ASSERT(mpt_gnode_insert(A, 0, C) == 0, "grandchild added"); }

	X = list ? mpt_list_clone(R->children) : mpt_tree_clone(R);
	V_ASSERT(X != 0, "a tree of plain nodes can be cloned");
	if (X) {
		xa = list ? X : X->children;
		if (!list) { V_ASSERT(X != R && same_name(X, R) && !X->parent && !X->next && !X->prev, "root cloned"); }
		V_ASSERT(xa != 0 && xa != A && xa != B && same_name(xa, A) && !xa->prev, "first child cloned in place");
		if (xa) {
			xb = xa->next;
			V_ASSERT(xb != 0 && xb != B && xb != A && same_name(xb, B) && xb->prev == xa && !xb->next, "second child cloned in order");
			if (!list) V_ASSERT(xa->parent == X && (!xb || xb->parent == X), "cloned children name the cloned root as parent");
			else V_ASSERT(!xa->parent && (!xb || !xb->parent), "a cloned list has no parent");
			if (deep) {
				V_ASSERT(xa->children != 0 && xa->children != C && same_name(xa->children, C) && xa->children->parent == xa
				         && !xa->children->next && !xa->children->prev, "grandchild cloned under the cloned child");
			} else V_ASSERT(xa->children == 0, "no children invented");
			if (xb) V_ASSERT(xb->children == 0, "no children invented");
		}
		/* release the clone */
		if (list) { while (X) { MPT_STRUCT(node) *nx = X->next; mpt_node_unlink(X); mpt_node_destroy(X); X = nx; } }
		else V_ASSERT(mpt_node_destroy(X) == 0, "clone released");
	}
	V_ASSERT(R->children == A && A->next == B && A->parent == R && B->parent == R && (!deep || (A->children == C && C->parent == A)), "source untouched");
	V_ASSERT(mpt_node_destroy(R) == 0, "source released");
	V_WITNESS_END();
}
