/*
 * C14 (release): destroy / clear on heap nodes.  Tree: parent P with children A, B
 * (built with the real constructors and mpt_gnode_insert).  One operation with a
 * symbolic target: mpt_node_destroy(X) for X in {P, A, B} either directly (linked:
 * must be refused, nothing released) or after unlinking; or mpt_node_clear(P).
 * Ledger: CBMC's free() preconditions (no double release, no release of a live
 * linked node's memory being used later) and --memory-leak-check (each node
 * released exactly once by the end).
 */
#include "verif.h"
#include <stdlib.h>
#include <string.h>
#include "meta.h"
#include "node.h"

/* same adapter as in nodes.c (mpt_gnode_pos through an unprototyped wrapper) */
#define mpt_gnode_pos verif_gnode_pos_u
static MPT_STRUCT(node) *verif_gnode_pos_u();
#include "node/node_insert.c"
#undef mpt_gnode_pos
static MPT_STRUCT(node) *verif_gnode_pos_u(n, pos, unused)
	const MPT_STRUCT(node) *n; int pos; const MPT_STRUCT(node) *unused;
{
	(void) unused;
	return mpt_gnode_pos(n, pos);
}

void harness(void)
{
	MPT_STRUCT(node) *P = mpt_node_new(0), *A = mpt_node_new(0), *B = mpt_node_new(0), *X, *r;
	int which = (int) V_IN_RANGE("target", 0, 2), unlink_first = V_IN_BOOL("unlink_first"), clear = V_IN_BOOL("clear_parent");
	V_ASSUME(P && A && B);
	if (V_IN_BOOL("parentless_list")) {
		/* sibling list A - B without a parent; P stays a separate root */
		V_ASSERT(mpt_gnode_after(A, B) == B && A->next == B && B->prev == A && !A->parent && !B->parent, "list built as intended");
		X = which == 1 ? A : B;
		r = mpt_node_destroy(X);
		V_ASSERT(r == X, "destroying a node that still has a sibling link is refused");
		V_ASSERT(A->next == B && B->prev == A, "refused destroy changes nothing");
		mpt_node_unlink(B);
		V_ASSERT(mpt_node_destroy(A) == 0 && mpt_node_destroy(B) == 0 && mpt_node_destroy(P) == 0, "unlinked nodes are released");
		V_WITNESS_END();
		return;
	}
	V_ASSERT(mpt_gnode_insert(P, 0, A) == 0 && mpt_gnode_insert(P, 0, B) == 0, "children inserted");
	V_ASSERT(P->children == A && A->next == B && B->prev == A && A->parent == P && B->parent == P, "tree built as intended");
	if (clear) {
		mpt_node_clear(P);
		V_ASSERT(P->children == 0, "clear removes all children");
		r = mpt_node_destroy(P);
		V_ASSERT(r == 0, "unlinked empty node is destroyed");
		V_WITNESS_END();
		return;
	}
	X = which == 0 ? P : which == 1 ? A : B;
	if (unlink_first) mpt_node_unlink(X);
	r = mpt_node_destroy(X);
	if (X == P || unlink_first) {
		V_ASSERT(r == 0, "an unlinked node is destroyed (with its subtree)");
		if (X != P) {
			/* the rest of the tree is intact and is released separately */
			MPT_STRUCT(node) *other = (X == A) ? B : A;
			V_ASSERT(P->children == other && other->parent == P && !other->next && !other->prev, "siblings stay linked to the parent");
			V_ASSERT(mpt_node_destroy(P) == 0, "remaining tree released");
		}
	} else {
		V_ASSERT(r == X, "destroying a node that is still linked is refused");
		V_ASSERT(P->children == A && A->next == B && B->prev == A && A->parent == P && B->parent == P, "refused destroy changes nothing");
		V_ASSERT(mpt_node_destroy(P) == 0, "tree released through its root");
	}
	V_WITNESS_END();
}
