/*
 * C15 family 2: replacing a held metatype reference through the generic
 * conversion entry (mpt_data_converter(TypeMetaRef)) releases the old referent
 * once and retains the new one once.  Referents are harness metatypes that count
 * addref/unref calls; the new referent's addref may fail (counter at maximum).
 */
#include "verif.h"
#include <string.h>
#include "types.h"
#include "meta.h"
#include "convert.h"

struct cm { MPT_INTERFACE(metatype) mt; int add, rel; int addref_fails; };
static int cm_conv(MPT_INTERFACE(convertable) *c, MPT_TYPE(type) t, void *p) { (void) c; (void) t; (void) p; return MPT_ERROR(BadType); }
static void cm_unref(MPT_INTERFACE(metatype) *m) { ((struct cm *) m)->rel++; }
static uintptr_t cm_addref(MPT_INTERFACE(metatype) *m) { struct cm *c = (struct cm *) m; if (c->addref_fails) return 0; c->add++; return 2; }
static MPT_INTERFACE(metatype) *cm_clone(const MPT_INTERFACE(metatype) *m) { (void) m; return 0; }
static const MPT_INTERFACE_VPTR(metatype) cm_vptr = { { cm_conv }, cm_unref, cm_addref, cm_clone };

void harness(void)
{
	struct cm oldm = { { &cm_vptr }, 0, 0, 0 }, newm = { { &cm_vptr }, 0, 0, 0 };
	MPT_INTERFACE(metatype) *slot, *src;
	MPT_TYPE(data_converter) conv = mpt_data_converter(MPT_ENUM(TypeMetaRef));
	int have_old = V_IN_BOOL("slot_holds_reference"), have_new = V_IN_BOOL("new_is_set"), r;
	newm.addref_fails = V_IN_BOOL("addref_fails");
	V_ASSERT(conv != 0, "metatype references have a converter");
	slot = have_old ? &oldm.mt : 0;
	src = have_new ? &newm.mt : 0;
	r = conv(&src, MPT_ENUM(TypeMetaRef), &slot);
	if (have_new && newm.addref_fails) {
		V_ASSERT(r < 0, "failure to retain the new referent is reported");
		V_ASSERT(slot == (have_old ? &oldm.mt : 0) && oldm.rel == 0 && oldm.add == 0, "failed assignment keeps the old reference untouched");
	} else {
		V_ASSERT(r >= 0, "assignment succeeds");
		V_ASSERT(slot == src, "slot holds the new referent");
		if (have_new) V_ASSERT(newm.add == 1 && newm.rel == 0, "new referent retained exactly once");
		if (have_old) V_ASSERT(oldm.rel == 1 && oldm.add == 0, "old referent released exactly once");
	}
	V_WITNESS_END();
}
