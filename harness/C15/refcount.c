/* C15 family 1: reference counter kernel, counter value fully symbolic (all 2^64). */
#include "verif.h"
#include "core.h"
void harness(void)
{
	MPT_STRUCT(refcount) r;
	uintptr_t v = V_IN_U64("counter"), ret;
	int up = V_IN_BOOL("raise");
	r._val = v;
	if (up) {
		ret = mpt_refcount_raise(&r);
		if (v == 0) V_ASSERT(ret == 0 && r._val == 0, "a dead object cannot be revived");
		else if (v == UINTPTR_MAX) V_ASSERT(ret == 0 && r._val == v, "a counter that cannot be raised reports failure and does not wrap");
		else V_ASSERT(ret == v + 1 && r._val == v + 1, "raise adds exactly one reference");
	} else {
		ret = mpt_refcount_lower(&r);
		if (v == 0) V_ASSERT(r._val == 0 && ret != 0, "lowering a dead counter is reported and keeps it at zero");
		else V_ASSERT(ret == v - 1 && r._val == v - 1, "lower drops exactly one reference");
	}
	V_WITNESS_END();
}
