/*
 * C15 family 3: shared buffer lifetime.  A buffer with one managed ghost element
 * (its finalisation marks destruction) and a history of K handle operations
 * {addref, unref, clone an array handle, drop an array handle}.  The buffer is
 * destroyed exactly when the model's handle count reaches zero.
 */
#include "verif.h"
#include <string.h>
#include "types.h"
#include "array.h"
#ifndef K
# define K 4
#endif
static int destroyed;
int h_init(void *p, const void *s) { (void) s; *(uint32_t *) p = 1; return 1; }
void h_fini(void *p) { V_ASSERT(!destroyed, "content destroyed at most once"); destroyed++; *(uint32_t *) p = 0; }
static const MPT_STRUCT(type_traits) h_traits = { h_init, h_fini, 4 };

void harness(void)
{
	MPT_STRUCT(buffer) *buf = _mpt_buffer_alloc(4, 0);
	MPT_STRUCT(array) a[2] = { MPT_ARRAY_INIT, MPT_ARRAY_INIT };
	int raw = 1, k;     /* raw handles held directly; a[i]._buf are array handles */
	V_ASSUME(buf != 0);
	buf->_content_traits = &h_traits;
	h_init(buf + 1, 0); buf->_used = 4;
	for (k = 0; k < K; k++) {
		int op = (int) V_IN_RANGE("op", 0, 3), i = V_IN_BOOL("which");
		int handles = raw + (a[0]._buf != 0) + (a[1]._buf != 0);
		if (!handles) break;
		if (op == 0) { V_ASSERT(buf->_vptr->addref(buf) != 0, "addref on a live buffer succeeds"); raw++; }
		else if (op == 1) { if (!raw) continue; buf->_vptr->unref(buf); raw--; }
		else if (op == 2) {
			MPT_STRUCT(array) src = MPT_ARRAY_INIT;
			if (a[i]._buf) continue;
			src._buf = buf;
			V_ASSERT(mpt_array_clone(&a[i], &src) >= 0 && a[i]._buf == buf, "array handle copy shares the buffer");
		}
		else { if (!a[i]._buf) continue; mpt_array_clone(&a[i], 0); }
		handles = raw + (a[0]._buf != 0) + (a[1]._buf != 0);
		V_ASSERT((destroyed != 0) == (handles == 0), "buffer is destroyed exactly when the last handle is dropped");
	}
	/* drop whatever is left */
	while (raw) { buf->_vptr->unref(buf); raw--; }
	if (a[0]._buf) mpt_array_clone(&a[0], 0);
	if (a[1]._buf) mpt_array_clone(&a[1], 0);
	V_ASSERT(destroyed == 1, "buffer destroyed once all handles are gone");
	V_WITNESS_END();
}
