/*
 * C17: fragmented message == contiguous message.
 * b[0..n), n <= NB, cut into 4 fragments at symbolic points (equal points =
 * empty fragments); every fragment is its own exactly-sized heap object so that a
 * read past a fragment is an out-of-bounds access.  -DFN=<n> selects the operation.
 */
#define V_NMAX 96
#include "verif.h"
#include <string.h>
#include <stdlib.h>
#include <sys/uio.h>
#include "array.h"
#include "queue.h"
#include "message.h"

#ifndef NB
# define NB 5
#endif
#define NF 4

#ifndef ARGV_STEPS
# define ARGV_STEPS (NB + 1)
#endif
#define F_READ 1
#define F_LENGTH 2
#define F_MEMCHR 3
#define F_MEMFCN 4
#define F_MEMSTR 5
#define F_MEMTOK 6
#define F_ARGV 7
#define F_MEMCPY 8
#define F_APPEND 9
#define F_ARRAY_MESSAGE 10
#define F_GET 11

#ifndef KF_C17_APPEND_CLEN
# define KF_C17_APPEND_CLEN 0
#endif
#ifndef KF_C17_ARGV_QUOTE_SPLIT
# define KF_C17_ARGV_QUOTE_SPLIT 0
#endif

static uint8_t b[NB];
static size_t n;
static struct iovec fr[NF];
static uint8_t *flat;

uint32_t h_buf_flags(const MPT_STRUCT(buffer) *bp) { (void) bp; return 0; }
void h_buf_unref(MPT_STRUCT(buffer) *bp) { (void) bp; }
uintptr_t h_buf_addref(MPT_STRUCT(buffer) *bp) { (void) bp; return 0; }
MPT_STRUCT(buffer) *h_buf_detach(MPT_STRUCT(buffer) *bp, size_t len) { return len <= bp->_size ? bp : 0; }
static const MPT_INTERFACE_VPTR(buffer) h_vptr = { h_buf_flags, h_buf_unref, h_buf_addref, h_buf_detach };

int is_tok(int c, void *arg)
{
	return c == *((uint8_t *) arg);
}

/* Fragments live in fixed slots of one arena; the bytes of a slot that are not
 * part of its fragment are unconstrained symbolic "gap" bytes.  A function that
 * reads past (or before) a fragment therefore computes a result that depends on a
 * gap byte, and the solver picks the gap value that exposes it. */
#define SLOT (NB + 2)
static uint8_t arena[(NF + 1) * SLOT + 2];
static void build(void)
{
	size_t c[NF + 1], k, i;
	n = V_IN_RANGE("n", 0, NB);
	for (k = 0; k < NB; k++) b[k] = V_IN_U8("b");
#ifdef ALPHABET
	{ static const uint8_t al[] = ALPHABET; for (k = 0; k < NB; k++) { b[k] = al[b[k] % sizeof(al)]; } }
#endif
	c[0] = 0; c[NF] = n;
	for (k = 1; k < NF; k++) { c[k] = V_IN_RANGE("cut", 0, NB); V_ASSUME(c[k] >= c[k - 1] && c[k] <= n); }
	for (k = 0; k < NF; k++) {
		size_t l = c[k + 1] - c[k];
		uint8_t *p = arena + 1 + k * SLOT;
		p[-1] = V_IN_U8("gap");
		for (i = 0; i < SLOT - 1; i++) {
			uint8_t g = V_IN_U8("gap");
#ifdef ALPHABET
			{ static const uint8_t al[] = ALPHABET; g = al[g % sizeof(al)]; }
#endif
			p[i] = (i < l) ? b[c[k] + i] : g;
		}
		fr[k].iov_len = l;
		fr[k].iov_base = p;
	}
	flat = arena + 1 + NF * SLOT;
	for (i = 0; i < SLOT; i++) {
		uint8_t g = V_IN_U8("gap");
		flat[i] = (i < n) ? b[i] : g;
	}
}
static void as_message(MPT_STRUCT(message) *m)
{
	m->base = fr[0].iov_base; m->used = fr[0].iov_len;
	m->cont = fr + 1; m->clen = NF - 1;
}
static void as_flat(MPT_STRUCT(message) *m)
{
	m->base = flat; m->used = n; m->cont = 0; m->clen = 0;
}
static void release(void)
{
}

void harness(void)
{
	size_t i;
	build();
#if FN == F_READ
	{
	MPT_STRUCT(message) m;
	uint8_t dst[NB + 2];
	size_t want = V_IN_RANGE("want", 0, NB + 1), got, exp, rest;
	int nodest = V_IN_BOOL("nodest");
	for (i = 0; i < NB + 2; i++) dst[i] = 0x5A;
	as_message(&m);
	got = mpt_message_read(&m, want, nodest ? (void *) 0 : (void *) dst);
	exp = want < n ? want : n;
	V_ASSERT(got == exp, "read returns min(requested, available)");
	if (!nodest) for (i = 0; i < NB + 2; i++) {
		if (i < exp) V_ASSERT(dst[i] == b[i], "read bytes equal the contiguous string");
		else V_ASSERT(dst[i] == 0x5A, "nothing written beyond the returned count");
	}
	V_ASSERT(mpt_message_length(&m) == n - exp, "residual length is the remainder");
	rest = mpt_message_read(&m, NB + 1, dst);
	V_ASSERT(rest == n - exp, "second read returns the remainder");
	for (i = 0; i < NB; i++) if (i < rest) V_ASSERT(dst[i] == b[exp + i], "second read continues where the first stopped");
	}
#elif FN == F_LENGTH
	{
	MPT_STRUCT(message) m;
	as_message(&m);
	V_ASSERT(mpt_message_length(&m) == n, "length is the sum of the fragments");
	}
#elif FN == F_MEMCHR
	{
	uint8_t tok = V_IN_U8("tok");
	ssize_t first = -2, last = -2, r1, r2;
	for (i = 0; i < NB; i++) if (i < n && b[i] == tok) { if (first < 0) first = i; last = i; }
	r1 = mpt_memchr(fr, NF, tok);
	r2 = mpt_memrchr(fr, NF, tok);
	V_ASSERT(r1 == first, "memchr over fragments = first index in the contiguous string");
	V_ASSERT(r2 == last, "memrchr over fragments = last index in the contiguous string");
	}
#elif FN == F_MEMFCN
	{
	uint8_t tok = V_IN_U8("tok");
	ssize_t first = -2, last = -2, r1, r2;
	for (i = 0; i < NB; i++) if (i < n && b[i] == tok) { if (first < 0) first = i; last = i; }
	r1 = mpt_memfcn(fr, NF, is_tok, &tok);
	r2 = mpt_memrfcn(fr, NF, is_tok, &tok);
	V_ASSERT(r1 == first, "memfcn over fragments = first matching index");
	V_ASSERT(r2 == last, "memrfcn over fragments = last matching index");
	}
#elif FN == F_MEMSTR
	{
	uint8_t set[2];
	size_t sl = V_IN_RANGE("setlen", 0, 2);
	ssize_t first = -2, last = -2, r1, r2;
	set[0] = V_IN_U8("set0"); set[1] = V_IN_U8("set1");
	for (i = 0; i < NB; i++) if (i < n && ((sl > 0 && b[i] == set[0]) || (sl > 1 && b[i] == set[1]))) { if (first < 0) first = i; last = i; }
	r1 = mpt_memstr(fr, NF, set, sl);
	r2 = mpt_memrstr(fr, NF, set, sl);
	if (!sl) { V_ASSERT(r1 == 0 && r2 == 0, "empty set matches at 0 (documented)"); }
	else {
		V_ASSERT(r1 == first, "memstr over fragments = first index of a set member");
		V_ASSERT(r2 == last, "memrstr over fragments = last index of a set member");
	}
	}
#elif FN == F_MEMTOK
	{
	struct iovec one;
	ssize_t r1, r2;
	int mode = V_IN_RANGE("mode", 0, 2);
	one.iov_base = flat; one.iov_len = n;
	if (mode == 0)      { r1 = mpt_memtok(fr, NF, ":", "#", "'"); r2 = mpt_memtok(&one, 1, ":", "#", "'"); }
	else if (mode == 1) { r1 = mpt_memtok(fr, NF, 0, "#", "'");   r2 = mpt_memtok(&one, 1, 0, "#", "'"); }
	else                { r1 = mpt_memtok(fr, NF, ": ", 0, 0);    r2 = mpt_memtok(&one, 1, ": ", 0, 0); }
	V_ASSERT(r1 == r2, "memtok over fragments = memtok over the contiguous string");
	}
#elif FN == F_ARGV
	{
	MPT_STRUCT(message) m, f;
	static const int seps[3] = { 0, ' ', ':' };
	int sep = seps[V_IN_RANGE("sep", 0, 2)];
	size_t k;
	int has_quote = 0;
	for (i = 0; i < NB; i++) if (i < n && (b[i] == '\'' || b[i] == '"')) has_quote = 1;
	/* region: whitespace tokenising of a message that contains a quote character */
	V_KF(KF_C17_ARGV_QUOTE_SPLIT, sep == ' ' && has_quote);
	as_message(&m); as_flat(&f);
	for (k = 0; k < ARGV_STEPS; k++) {
		ssize_t a1 = mpt_message_argv(&m, sep);
		ssize_t a2 = mpt_message_argv(&f, sep);
		uint8_t d1[NB + 1], d2[NB + 1];
		size_t g1, g2;
		V_ASSERT(a1 == a2, "argument length over fragments = over the contiguous string");
		if (a1 < 0) break;
		V_ASSERT((size_t) a1 <= n, "argument not longer than the message");
		g1 = mpt_message_read(&m, a1 + 1, d1);
		g2 = mpt_message_read(&f, a2 + 1, d2);
		V_ASSERT(g1 == g2, "argument bytes available equally");
		for (i = 0; i < NB + 1; i++) if (i < g1) V_ASSERT(d1[i] == d2[i], "argument bytes equal");
		if (g1 <= (size_t) a1) break;
	}
	}
#elif FN == F_MEMCPY
	{
	uint8_t d[NB + 1];
	struct iovec dv[3];
	size_t dn = V_IN_RANGE("dn", 0, NB), d1 = V_IN_RANGE("dcut1", 0, NB), d2 = V_IN_RANGE("dcut2", 0, NB);
	ssize_t len = (ssize_t) V_IN_RANGE("len", 0, NB + 2) - 1, r;
	V_ASSUME(d1 <= d2 && d2 <= dn);
	for (i = 0; i < NB + 1; i++) d[i] = 0x5A;
	dv[0].iov_base = d;      dv[0].iov_len = d1;
	dv[1].iov_base = d + d1; dv[1].iov_len = d2 - d1;
	dv[2].iov_base = d + d2; dv[2].iov_len = dn - d2;
	r = mpt_memcpy(len, fr, NF, dv, 3);
	if (len >= 0 && (size_t) len > n) V_ASSERT(r == -1, "more than the source holds is refused");
	else if (len >= 0 && (size_t) len > dn) V_ASSERT(r == -2, "more than the target holds is refused");
	else {
		size_t exp = len >= 0 ? (size_t) len : (n < dn ? n : dn);
		V_ASSERT(r == (ssize_t) exp, "copied amount = requested (or all that fits)");
		for (i = 0; i < NB + 1; i++) {
			if (i < exp) V_ASSERT(d[i] == b[i], "copied bytes = contiguous copy");
		}
	}
	if (r < 0) r = 0;
	for (i = 0; i < NB + 1; i++) if (i >= (size_t) r) V_ASSERT(d[i] == 0x5A, "nothing written beyond the copied amount");
	}
#elif FN == F_APPEND
	{
	/* array over a static buffer object with room for everything: the property
	 * concerns the walk over the fragments, not buffer growth (C04) */
	static struct { MPT_STRUCT(buffer) buf; uint8_t data[NB + 4]; } sb = { { &h_vptr, 0, NB + 4, 0 }, { 0 } };
	MPT_STRUCT(array) a;
	MPT_STRUCT(message) m;
	size_t pl = V_IN_RANGE("prelen", 0, 2);
	int r;
	a._buf = &sb.buf;
	sb.data[0] = V_IN_U8("pre0"); sb.data[1] = V_IN_U8("pre1");
	sb.buf._used = pl;
	{
	uint8_t pre0 = sb.data[0], pre1 = sb.data[1];
	as_message(&m);
#ifdef APPEND_NO_CONT
	/* message without continuation fragments */
	m.used = n; m.base = flat; m.clen = 0; m.cont = 0;
#endif
	r = mpt_message_append(&a, &m);
	V_ASSERT(r == 0, "append succeeds (space is available)");
	V_ASSERT(a._buf == &sb.buf, "buffer not replaced");
	V_ASSERT(sb.buf._used == pl + n, "array grows by the message length");
	for (i = 0; i < NB + 2; i++) {
		if (i < pl) V_ASSERT(sb.data[i] == (i ? pre1 : pre0), "previous array content kept");
		else if (i < pl + n) V_ASSERT(sb.data[i] == b[i - pl], "appended bytes = concatenation of the fragments");
	}
	}
	}
#elif FN == F_GET
	{
	/* message view of a ring-buffer range: fragments concatenate to the logical range */
	static uint8_t store[NB];
	MPT_STRUCT(queue) q;
	MPT_STRUCT(message) m;
	struct iovec v;
	size_t max = V_IN_RANGE("max", 1, NB), off = V_IN_RANGE("off", 0, NB), len = V_IN_RANGE("len", 0, NB);
	size_t pos = V_IN_RANGE("pos", 0, NB + 1), take = V_IN_RANGE("take", 0, NB + 1);
	uint8_t out[NB + 1];
	int r;
	V_ASSUME(off <= max && len <= max);
	for (i = 0; i < NB; i++) store[i] = b[i];
	q.base = store; q.max = max; q.off = off; q.len = len;
	r = mpt_message_get(&q, pos, take, &m, &v);
	if (r < 0) V_ASSERT(pos + take > len, "range inside the content is accepted");
	else {
		size_t g;
		V_ASSERT(pos + take <= len, "range beyond the content is refused");
		g = mpt_message_read(&m, NB + 1, out);
		V_ASSERT(g == take, "view has the requested length");
		for (i = 0; i < NB; i++) if (i < take) V_ASSERT(out[i] == store[(off + pos + i) % max], "view bytes = logical queue bytes");
	}
	}
#else
# error FN
#endif
	release();
	V_WITNESS_END();
}
