/*
 * C05: one operation on a typed buffer (managed elements) from a constructed state.
 *
 * Element = 4-byte tag.  Ghost ledger: h_init stamps a fresh tag and marks it live
 * (copy-init records the source tag and requires the source to be live); h_fini
 * requires a live tag (else: double destroy / destroy of non-element memory),
 * marks it dead and poisons the slot.  Relocation by memmove keeps tags, as the
 * library intends.  After the operation, and again after all handles are
 * released: the set of live tags equals the tags stored in the live buffers
 * (no leak, no double destroy, no element lost without destruction).
 * -DOP selects the operation; -DSHARED=1 starts with two handles on the buffer.
 */
#include "verif.h"
#include <string.h>
#include <stdlib.h>
#include <errno.h>
#include "types.h"
#include "array.h"

#ifndef RAWPRE
# define RAWPRE 0
#endif
#ifndef CTOR_FAIL
# define CTOR_FAIL 0
#endif
#ifndef ALIGNED
# define ALIGNED 1
#endif
#ifndef N0MAX
# define N0MAX 3
#endif
#define ES 4
#ifndef NTAG
# define NTAG 16
#endif
#define POISON 0xDEAD0000u

#define OP_SET 1
#define OP_CUT 2
#define OP_INSERT 3
#define OP_DETACH 4
#define OP_UNREF 5
#define OP_ARRAY_SET 6
#define OP_ARRAY_SLICE 7
#define OP_ARRAY_RESERVE 8
#define OP_ARRAY_INSERT 9

#ifndef KF_C05_CUT_TRUNCATE
# define KF_C05_CUT_TRUNCATE 0
#endif

static uint8_t live[NTAG];
static uint32_t copied_from[NTAG];
static uint32_t next_tag;
static int fail_at = -1;     /* k-th init from now on fails */
static int n_init;

int h_init(void *ptr, const void *src)
{
	uint32_t tag;
	if (fail_at >= 0 && n_init++ == fail_at) return -1;
	V_ASSERT(next_tag < NTAG, "harness: tag space large enough");
	tag = next_tag++;
	live[tag] = 1;
	copied_from[tag] = 0xffffffffu;
	if (src) {
		uint32_t st = *(const uint32_t *) src;
		V_ASSERT(st < NTAG && live[st], "copy-construction reads a live source element");
		copied_from[tag] = st;
	}
	*(uint32_t *) ptr = tag;
	return 1;
}
void h_fini(void *ptr)
{
	uint32_t tag = *(uint32_t *) ptr;
	V_ASSERT(tag < NTAG, "destructor receives an element (not raw or already destroyed memory)");
	if (tag < NTAG) {
		V_ASSERT(live[tag], "element destroyed at most once");
		live[tag] = 0;
	}
	*(uint32_t *) ptr = POISON;
}
static const MPT_STRUCT(type_traits) h_traits = { h_init, h_fini, ES };

static size_t count_live(void)
{
	size_t i, c = 0;
	for (i = 0; i < NTAG; i++) c += live[i];
	return c;
}
/* all elements of buf are live, distinct tags; returns count */
static size_t check_buffer(const MPT_STRUCT(buffer) *buf)
{
	size_t i, n = buf->_used / ES;
	const uint8_t *p = (const uint8_t *) (buf + 1);
	uint8_t seen[NTAG];
	V_ASSERT(buf->_used % ES == 0, "used size is a whole number of elements");
	V_ASSERT(buf->_used <= buf->_size, "used size within capacity");
	for (i = 0; i < NTAG; i++) seen[i] = 0;
	for (i = 0; i < NTAG; i++) {
		uint32_t t;
		if (i >= n) break;
		t = ((const uint32_t *) p)[i];
		V_ASSERT(t < NTAG && live[t], "every stored element is alive");
		if (t < NTAG) { V_ASSERT(!seen[t], "no element stored twice (raw duplicate)"); seen[t] = 1; }
	}
	return n;
}

void harness(void)
{
	MPT_STRUCT(buffer) *buf, *other = 0;
	MPT_STRUCT(array) arr = MPT_ARRAY_INIT;
	#ifdef N0FIX
	size_t n0 = N0FIX, i;
#else
	size_t n0 = V_IN_RANGE("n0", 0, N0MAX), i;
#endif
	uint32_t srcel[2];
	#if ALIGNED
	/* element-aligned arguments (the accepted region) */
# ifdef POS_EL
	/* driver-side case split: position and length concrete, element count symbolic */
	size_t pos = ES * POS_EL, len = ES * LEN_EL;
# else
	size_t pos = ES * V_IN_RANGE("pos_el", 0, 5), len = ES * V_IN_RANGE("len_el", 0, 3);
# endif
#else
	/* at least one unaligned argument: must be refused without effect */
	size_t pos = V_IN_RANGE("pos", 0, 5 * ES), len = V_IN_RANGE("len", 0, 3 * ES);
#endif
	size_t in_buffers = 0, expect_src = 2;
	uint8_t *data;
#if !ALIGNED
	V_ASSUME(pos % ES || len % ES);
#endif

	buf = _mpt_buffer_alloc(N0MAX * ES, 0);
	V_ASSUME(buf != 0);
	buf->_content_traits = &h_traits;
	data = (uint8_t *) (buf + 1);
	/* constructed pre-state: n0 live elements */
#if RAWPRE
	/* raw (untyped) content that is about to be re-reserved for the managed type */
	buf->_content_traits = 0;
	for (i = 0; i < N0MAX * ES; i++) data[i] = 0xEE;
#else
	for (i = 0; i < N0MAX; i++) if (i < n0) h_init(data + i * ES, 0);
#endif
	buf->_used = n0 * ES;
	/* two live source elements owned by the harness */
	h_init(&srcel[0], 0); h_init(&srcel[1], 0);
#if SHARED
	V_ASSERT(buf->_vptr->addref(buf) != 0, "second handle");
	other = buf;
#endif
	arr._buf = buf;
#if CTOR_FAIL
	fail_at = (int) V_IN_RANGE("fail_at", 0, 5);
#else
	fail_at = -1;
#endif
	n_init = 0;

#if OP == OP_SET
	{
	int with_src = V_IN_BOOL("with_src");
	long r;
	V_ASSUME(!SHARED);   /* direct buffer writes require a private buffer (caller's duty) */
	if (with_src) V_ASSUME(len <= 2 * ES);
	r = mpt_buffer_set(buf, &h_traits, pos, with_src ? (const void *) srcel : (const void *) 0, len);
	if (r < 0 && fail_at < 0) V_ASSERT(pos % ES || len % ES || pos + len > buf->_size, "aligned in-capacity set is accepted");
	}
#elif OP == OP_CUT
	{
	ssize_t r;
	V_ASSUME(!SHARED);
	V_KF(KF_C05_CUT_TRUNCATE, len == 0);
	r = mpt_buffer_cut(buf, pos, len);
	if (r < 0) V_ASSERT(buf->_used == n0 * ES, "refused cut changes nothing");
	else V_ASSERT(pos + len <= n0 * ES, "cut outside the data is refused");
	}
#elif OP == OP_INSERT
	{
	uint8_t *p;
	V_ASSUME(!SHARED);
	p = mpt_buffer_insert(buf, pos, len);
	if (p) {
		/* the caller constructs the inserted elements */
		V_ASSERT(p == data + pos, "insert returns the gap address");
		for (i = 0; i < len; i += ES) { fail_at = -1; h_init(p + i, 0); }
	}
	}
#elif OP == OP_DETACH
	{
	MPT_STRUCT(buffer) *nb = buf->_vptr->detach(buf, len);
	if (nb) { arr._buf = nb; }
	else if (SHARED) { /* failed detach of shared buffer keeps both handles */ }
	}
#elif OP == OP_UNREF
	buf->_vptr->unref(buf);
	arr._buf = 0;
#elif OP == OP_ARRAY_SET
	{
	int with_src = V_IN_BOOL("with_src");
#ifdef POS_EL
	/* offset from the case split; sign symbolic (negative = relative to the end) */
	long off = V_IN_BOOL("neg") ? -(long) POS_EL : (long) POS_EL;
#else
	long off = (long) V_IN_RANGE("off", 0, 8) - 3;
#endif
	void *p;
	if (with_src) V_ASSUME(len <= 2 * ES);
	p = mpt_array_set(&arr, &h_traits, len, with_src ? (const void *) srcel : (const void *) 0, off);
	(void) p;
	}
#elif OP == OP_ARRAY_SLICE
	{
	void *p = mpt_array_slice(&arr, pos, len);
	(void) p;
	}
#elif OP == OP_ARRAY_RESERVE
	{
	int mode = RAWPRE ? 1 : (int) V_IN_RANGE("traits_mode", 0, 1);
	MPT_STRUCT(buffer) *nb = mpt_array_reserve(&arr, len + pos, mode ? &h_traits : (const MPT_STRUCT(type_traits) *) 0);
	(void) nb;
	}
#elif OP == OP_ARRAY_INSERT
	{
	uint8_t *p = mpt_array_insert(&arr, pos, len);
	if (p) for (i = 0; i < len; i += ES) { fail_at = -1; h_init(p + i, 0); }
	}
#else
# error OP
#endif
	fail_at = -1;
	/* ledger after the operation */
	if (arr._buf && arr._buf->_content_traits == &h_traits) in_buffers += check_buffer(arr._buf);
	if (other && other != arr._buf) in_buffers += check_buffer(other);
	V_ASSERT(live[0 + n0] || 1, "");
	{
	uint32_t s0 = srcel[0], s1 = srcel[1];
	V_ASSERT(s0 < NTAG && live[s0] && s1 < NTAG && live[s1], "source elements of a copy stay alive and owned by the caller");
	}
	if (!arr._buf || arr._buf->_content_traits == &h_traits)
		V_ASSERT(count_live() == in_buffers + expect_src, "live elements = elements stored in live buffers (none leaked, none destroyed while stored)");
#if SHARED && (OP == OP_DETACH || OP == OP_ARRAY_SET || OP == OP_ARRAY_SLICE || OP == OP_ARRAY_INSERT)
	if (arr._buf && other && arr._buf != other && arr._buf->_content_traits == &h_traits) {
		/* detached copy: surviving original elements were copy-constructed, not byte-copied */
		size_t n = arr._buf->_used / ES, m = other->_used / ES;
		const uint8_t *np = (const uint8_t *) (arr._buf + 1), *op = (const uint8_t *) (other + 1);
		for (i = 0; i < N0MAX; i++) {
			uint32_t t, o;
			if (i >= n || i >= m) break;
			t = ((const uint32_t *) np)[i]; o = ((const uint32_t *) op)[i];
			V_ASSERT(t != o, "shared typed buffer is copied element-wise, not as raw bytes");
		}
	}
#endif
	/* release every handle: nothing may stay alive */
	if (arr._buf) { MPT_STRUCT(buffer) *b = arr._buf; b->_vptr->unref(b); }
	if (other && other != arr._buf) other->_vptr->unref(other);
	else if (other && SHARED && OP != OP_UNREF) other->_vptr->unref(other);
	h_fini(&srcel[0]); h_fini(&srcel[1]);
	V_ASSERT(count_live() == 0, "after the last handle is released no element remains alive");
	V_WITNESS_END();
}
