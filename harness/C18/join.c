/* C18: joining parts never changes the total number of points covered. */
#include "verif.h"
#include <sys/uio.h>
#include "values.h"
void harness(void)
{
	MPT_STRUCT(linepart) a, b, a0, *r;
	a.raw = V_IN_U16("a.raw"); a.usr = V_IN_U16("a.usr"); a._cut = V_IN_U16("a.cut"); a._trim = V_IN_U16("a.trim");
	b.raw = V_IN_U16("b.raw"); b.usr = V_IN_U16("b.usr"); b._cut = V_IN_U16("b.cut"); b._trim = V_IN_U16("b.trim");
	a0 = a;
	r = mpt_linepart_join(&a, b);
	if (!r) {
		V_ASSERT(a.raw == a0.raw && a.usr == a0.usr && a._cut == a0._cut && a._trim == a0._trim, "refused join changes nothing");
	} else {
		V_ASSERT(r == &a, "join returns the extended part");
		V_ASSERT((unsigned) a.raw == (unsigned) a0.raw + b.raw && (unsigned) a.usr == (unsigned) a0.usr + b.usr, "totals add without wrapping");
		V_ASSERT(!a0._trim && !b._cut, "parts with a fraction at the seam are not joined");
		V_ASSERT(a._cut == a0._cut && a._trim == b._trim || a._trim == a0._trim, "end fractions are kept");
	}
	V_WITNESS_END();
}
