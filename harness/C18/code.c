/* C18: 16-bit fraction code: -2 exactly outside [0,1]; decode within 2^-16; monotone. */
#include "verif.h"
#include <sys/uio.h>
#include "values.h"
void harness(void)
{
	double x = v_in_double("x"), y = v_in_double("y");
	int cx, cy;
	V_ASSUME(x == x && y == y);
	cx = mpt_linepart_code(x); cy = mpt_linepart_code(y);
	V_ASSERT((cx == -2) == (x < 0 || x > 1), "code refuses exactly the values outside [0,1]");
	if (cx >= 0) {
		double back = mpt_linepart_real(cx);
		V_ASSERT(cx <= 65535, "code fits 16 bits");
		V_ASSERT(back - x <= 1.0 / 65536 && x - back <= 1.0 / 65536, "decoded fraction within 2^-16");
		if (cy >= 0 && x <= y) V_ASSERT(cx <= cy, "code is monotone");
		if (x > 0) V_ASSERT(cx >= 1, "non-zero fraction never encodes as 'no fraction'");
	}
	V_WITNESS_END();
}
