/*
 * C18: split N symbolic finite doubles against a symbolic range with the
 * documented driver loop (from += part.raw).  Oracle: progress, exact
 * consumption, every in-range point drawn as a full point in exactly one part,
 * no out-of-range point drawn as a full point, cut/trim only on out-of-range end
 * points, stored fractions within 2^-16 of the crossing.
 */
#include "verif.h"
#include <math.h>
#include <sys/uio.h>
#include "values.h"

#ifndef N
# define N 5
#endif
#ifndef FRACTIONS
# define FRACTIONS 0
#endif

#if !FRACTIONS
/* contract stub for the fraction encoder in the partition query: a crossing is
 * encoded as some non-zero 16-bit code (the encoder itself: code.c; the fraction
 * value: FRACTIONS query).  Keeps floating-point division out of this query. */
int verif_code_stub(double val)
{
	(void) val;
	return (int) V_IN_RANGE("fraction_code", 1, 65535);
}
#endif
static int finite_d(double d) { return d == d && d - d == 0; }

void harness(void)
{
	double v[N];
	MPT_STRUCT(range) rg;
	size_t n = V_IN_RANGE("n", 1, N), i, s = 0, parts = 0;
	uint8_t drawn[N];

	for (i = 0; i < N; i++) { v[i] = v_in_double("v"); V_ASSUME(finite_d(v[i])); drawn[i] = 0; }
	rg.min = v_in_double("min"); rg.max = v_in_double("max");
	V_ASSUME(finite_d(rg.min) && finite_d(rg.max) && rg.min <= rg.max);
#ifdef MAGNITUDE
	/* keep differences finite: |x| <= MAGNITUDE */
	for (i = 0; i < N; i++) V_ASSUME(v[i] >= -MAGNITUDE && v[i] <= MAGNITUDE);
	V_ASSUME(rg.min >= -MAGNITUDE && rg.max <= MAGNITUDE);
#endif

	while (s < n && parts < N) {
		MPT_STRUCT(linepart) p;
		size_t first, last, j;
		mpt_linepart_linear(&p, v + s, n - s, &rg);
		parts++;
		V_ASSERT(p.raw >= 1, "every call makes progress");
		V_ASSERT(p.raw <= n - s, "a part covers no more points than remain");
		V_ASSERT(p.usr <= (size_t) p.raw + 1, "drawn points are raw points plus at most the trim point");
		V_ASSERT(s + p.usr <= n, "drawn points lie inside the data");
		first = p._cut ? 1 : 0;
		last = p.usr - (p._trim ? 1 : 0);
		if (p._cut) {
			double a = v[s], b = v[s + 1], f, got = mpt_linepart_real(p._cut);
			V_ASSERT(p.usr >= 2, "a cut needs a following drawn point");
			V_ASSERT(a < rg.min || a > rg.max, "cut point lies outside the range");
#if FRACTIONS
			f = (a < rg.min) ? (rg.min - a) / (b - a) : (a - rg.max) / (a - b);
			V_ASSERT(got - f <= 1.0 / 65536 && f - got <= 1.0 / 65536, "cut fraction reproduces the crossing to 16 bits");
#else
			(void) f; (void) got; (void) b;
#endif
		}
		if (p._trim) {
			double a = v[s + p.usr - 1], b = v[s + p.usr - 2], f, got = mpt_linepart_real(p._trim);
			V_ASSERT(p.usr >= 2, "a trim needs a preceding drawn point");
			V_ASSERT(a < rg.min || a > rg.max, "trim point lies outside the range");
#if FRACTIONS
			f = (a < rg.min) ? (rg.min - a) / (b - a) : (a - rg.max) / (a - b);
			V_ASSERT(got - f <= 1.0 / 65536 && f - got <= 1.0 / 65536, "trim fraction reproduces the crossing to 16 bits");
#else
			(void) f; (void) got; (void) b;
#endif
		}
		for (j = 0; j < N; j++) {
			if (j >= first && j < last) {
				V_ASSERT(v[s + j] >= rg.min && v[s + j] <= rg.max, "no out-of-range point is drawn as a full point");
				drawn[s + j]++;
			}
		}
		s += p.raw;
	}
	V_ASSERT(s == n, "the parts consume every input point exactly once");
	for (i = 0; i < N; i++) if (i < n) {
		if (v[i] >= rg.min && v[i] <= rg.max) V_ASSERT(drawn[i] == 1, "every in-range point is drawn in exactly one part");
		else V_ASSERT(drawn[i] == 0, "out-of-range points are never full points");
	}
	V_WITNESS_END();
}
