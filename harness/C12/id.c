/*
 * C12 family 1: request-id codec.  id: all 2^64 values; header width len 0..9.
 * id2buf accepts iff id < 2^(8*len-1) (top bit is the reply marker); buf2id on the
 * produced bytes gives the id back, reads exactly len bytes (guards).
 */
#include "verif.h"
#include "message.h"

void harness(void)
{
	uint64_t id = V_IN_U64("id"), out = 0x5A5A5A5A5A5A5A5AULL;
	size_t len = V_IN_RANGE("len", 0, 9), i;
	uint8_t buf[13];
	int r, r2, fits;
	for (i = 0; i < 13; i++) buf[i] = 0xA5;
	r = mpt_message_id2buf(id, buf + 2, len);
	V_ASSERT(buf[0] == 0xA5 && buf[1] == 0xA5, "no write before the header");
	for (i = 2 + len; i < 13; i++) V_ASSERT(buf[i] == 0xA5, "no write beyond the header width");
	if (len == 0) fits = (id == 0);
	else if (len >= 9) fits = 1;
	else fits = (id >> (8 * len - 1)) == 0;
	V_ASSERT((r >= 0) == fits, "id accepted iff it fits the width with the reply bit clear");
	if (r < 0) { V_WITNESS_END(); return; }
	r2 = mpt_message_buf2id(buf + 2, len, &out);
	V_ASSERT(r2 >= 0, "produced header is readable");
	V_ASSERT(out == id, "id read back equals the id written");
	V_WITNESS_END();
}
