/*
 * C12 family 2: history on a deferrable reply context.
 * K operations chosen symbolically from {arm, reply, defer, deferred reply,
 * release owner handle}; transport = harness recorder that accepts or
 * rejects each send symbolically.  Oracle per armed request: at most one accepted
 * send, carrying the armed id with the reply bit set; further replies refused;
 * rejected sends leave the id intact; release of the last handle of an armed,
 * unanswered request sends exactly one default reply; arming leaves the context
 * (its interface pointers, counters, transport) untouched.  Heap ledger by
 * --memory-leak-check and CBMC's free() checks.
 */
#include "verif.h"
#include <stdlib.h>
#include <string.h>
#include "meta.h"
#include "message.h"
#include "types.h"
#include "event.h"

#ifndef K
# define K 4
#endif
#ifndef IDLEN
# define IDLEN 2
#endif

/* ghost state of the transport */
static int g_accepted;          /* accepted sends for the current request */
static int g_total_accepted;
static int g_attempts;
static uint8_t g_armed[IDLEN];  /* id bytes of the current request */
static int g_armed_on;
static int g_bad_id;
static int g_default_msg;       /* accepted send had msg == NULL (default reply) */
static int transport;

int h_send(void *ptr, const MPT_STRUCT(reply_data) *rd, const MPT_STRUCT(message) *msg)
{
	int ok = V_IN_BOOL("send_ok");
	g_attempts++;
	V_ASSERT(ptr == &transport, "send reaches the attached transport");
	{ int z; const uint8_t *idp = (const uint8_t *) rd + MPT_offset(reply_data, val);   /* id bytes continue behind the 4 inline ones */
	  if (rd->len != IDLEN || idp[0] != (g_armed[0] | 0x80)) g_bad_id = 1; for (z = 1; z < IDLEN; z++) if (idp[z] != g_armed[z]) g_bad_id = 1; }
	if (!ok) return -1;
	g_accepted++; g_total_accepted++;
	if (!msg) g_default_msg++;
	return 0;
}
/* logging is not the subject */
int mpt_log(MPT_INTERFACE(logger) *l, const char *fcn, int type, const char *fmt, ...)
{
	(void) l; (void) fcn; (void) type; (void) fmt; return 0;
}

void harness(void)
{
	MPT_INTERFACE(metatype) *mt;
	MPT_INTERFACE(reply_context) *rc = 0;
	MPT_STRUCT(reply_data) *rd = 0;
	MPT_INTERFACE(reply_context_detached) *def = 0;
	MPT_STRUCT(message) msg;
	uint8_t payload[2] = { 1, 2 };
	int handles = 1;   /* owner handles on the metatype */
	int answered = 0;  /* current request got its accepted reply */
	int k;

	mt = mpt_reply_deferrable(IDLEN, h_send, &transport);
	V_ASSUME(mt != 0);
	V_ASSERT(mt->_vptr->convertable.convert((MPT_INTERFACE(convertable) *) mt, MPT_ENUM(TypeReplyPtr), &rc) >= 0 && rc, "context offers the reply interface");
	V_ASSERT(mt->_vptr->convertable.convert((MPT_INTERFACE(convertable) *) mt, MPT_ENUM(TypeReplyDataPtr), &rd) >= 0 && rd, "context offers the request-id slot");
	msg.base = payload; msg.used = 2; msg.cont = 0; msg.clen = 0;

	for (k = 0; k < K; k++) {
		int op = V_IN_RANGE("op", 0, 4);
		if (!handles) break;
		if (op == 0) {
			/* arm: only when no request is outstanding (protocol of the users) */
			uint8_t idb[IDLEN];
			const void *vp_mt = mt->_vptr, *vp_rc = rc->_vptr;
			int r;
			if (g_armed_on && !answered) continue;
			if (def) continue;
			{ int z; for (z = 0; z < IDLEN; z++) idb[z] = V_IN_U8("idbyte"); idb[0] &= 0x7f; }
			V_ASSUME(idb[0] || idb[1]);
			r = mpt_reply_set(rd, IDLEN, idb);
			V_ASSERT(r >= 0, "id of the permitted width is accepted");
			V_ASSERT(mt->_vptr == vp_mt && rc->_vptr == vp_rc, "arming does not disturb the context's interfaces");
			{ int z; for (z = 0; z < IDLEN; z++) g_armed[z] = idb[z]; } g_armed_on = 1; g_accepted = 0; answered = 0;
		}
		else if (op == 1) {
			int before = g_accepted, r;
			r = rc->_vptr->reply(rc, &msg);
			if (!g_armed_on || answered || def) {
				V_ASSERT(r < 0, "reply without an outstanding request is refused");
				V_ASSERT(g_accepted == before, "refused reply sends nothing");
			} else if (r >= 0) {
				V_ASSERT(g_accepted == before + 1, "accepted reply was sent exactly once");
				answered = 1;
			} else {
				V_ASSERT(g_accepted == before, "failed reply was not accepted by the transport");
			}
		}
		else if (op == 2) {
			MPT_INTERFACE(reply_context_detached) *d;
			if (def) continue;
			d = rc->_vptr->defer(rc);
			if (!g_armed_on || answered) V_ASSERT(d == 0, "nothing to defer without an outstanding request");
			else V_ASSERT(d != 0, "outstanding request can be deferred");
			def = d;
		}
		else if (op == 3) {
			int before = g_accepted, r, with_msg = V_IN_BOOL("with_msg");
			if (!def) continue;
			r = def->_vptr->reply(def, with_msg ? &msg : 0);
			if (r >= 0) {
				/* handle consumed */
				def = 0;
				if (g_accepted == before + 1) answered = 1;
				else { V_ASSERT(!with_msg || g_accepted == before, "no double send"); answered = 1; }
			} else {
				V_ASSERT(with_msg, "default deferred reply never fails");
				V_ASSERT(g_accepted == before, "failed deferred reply was not accepted");
			}
		}
		else if (op == 4) {
			int before = g_total_accepted;
			int outstanding = g_armed_on && !answered && !def;
			mt->_vptr->unref(mt);
			handles--;
			if (!handles && outstanding) {
				/* last handle gone with transport attached: default reply (may be rejected by transport) */
				V_ASSERT(g_total_accepted <= before + 1, "at most one default reply");
				V_ASSERT(g_attempts > 0, "default reply attempted for the unanswered request");
			} else {
				V_ASSERT(g_total_accepted == before, "release without outstanding request sends nothing");
			}
		}
		V_ASSERT(g_accepted <= 1, "at most one accepted reply per armed request");
		V_ASSERT(!g_bad_id, "every send carries the armed id marked as reply");
	}
	/* tear down whatever is left */
	if (def) { def->_vptr->reply(def, 0); def = 0; }
	while (handles) { mt->_vptr->unref(mt); handles--; }
	V_ASSERT(g_accepted <= 1, "at most one accepted reply per armed request (end)");
	V_ASSERT(!g_bad_id, "every send carried the armed id marked as reply (end)");
	V_WITNESS_END();
}
