/*
 * C08 (L0, real path storage): one mpt_path_add / mpt_path_addchar on an
 * array-backed path whose buffer comes from the real allocator, in particular
 * when the stored data fills the buffer exactly (capacity 64) so that the
 * operation has to grow (relocate) the storage.  Oracle: the path text is
 * preserved, the new element/character is in place, path->base names the live
 * buffer (CBMC flags any use of the released one), nothing leaks.
 */
#include "verif.h"
#include <string.h>
#include "types.h"
#include "array.h"
#include "config.h"

#define CAP 64
void harness(void)
{
	MPT_STRUCT(buffer) *buf = _mpt_buffer_alloc(CAP, 0);
	MPT_STRUCT(path) p = MPT_PATH_INIT;
	uint8_t *d;
	#ifdef USED
	size_t used = USED, post = POST, i, len;      /* driver-side case split */
	int addchar = ADDCHAR, r;
#else
	size_t used = V_IN_RANGE("used", CAP - 2, CAP), post = V_IN_RANGE("post", 0, 2), i, len;
	int addchar = V_IN_BOOL("addchar"), r;
#endif
	V_ASSUME(buf != 0 && buf->_size == CAP);
	V_ASSUME(post <= used - 4);
	d = (uint8_t *) (buf + 1);
	len = used - post;
	for (i = 0; i < CAP; i++) d[i] = (i + 1 == len) ? 0 : 'a';    /* one element of len-1 chars + assign byte, then post chars */
	buf->_used = used;
	p.base = (const char *) d; p.off = 0; p.len = len; p.first = 0; p.flags = MPT_PATHFLAG(HasArray) | MPT_PATHFLAG(KeepPost); p.sep = '.'; p.assign = 0;
	if (addchar) {
		r = mpt_path_addchar(&p, 'z');
		V_ASSERT(r >= 0, "a character can always be added (storage grows)");
		{
		MPT_STRUCT(buffer) *nb = ((MPT_STRUCT(buffer) *) p.base) - 1;
		V_ASSERT(nb->_used == used + 1, "stored data grows by one character");
		for (i = 0; i < CAP; i++) if (i < used) V_ASSERT(((const uint8_t *) p.base)[i] == ((i + 1 == len) ? 0 : 'a'), "existing path text preserved");
		V_ASSERT(((const uint8_t *) p.base)[used] == 'z', "character appended behind the stored data");
		nb->_vptr->unref(nb);
		}
	} else {
		size_t add = post;   /* turn the post data into the next element */
		r = mpt_path_add(&p, (int) add);
		V_ASSERT(r >= 0, "post data can become the next element (storage grows for the assign byte)");
		{
		MPT_STRUCT(buffer) *nb = ((MPT_STRUCT(buffer) *) p.base) - 1;
		const uint8_t *t = (const uint8_t *) p.base;
		V_ASSERT(p.len == len + add + 1, "path grows by the element and its assign byte");
		V_ASSERT(nb->_used >= p.off + p.len && nb->_used <= nb->_size, "path lies inside the stored data");
		for (i = 0; i < CAP; i++) if (i + 1 < len) V_ASSERT(t[i] == 'a', "earlier element text preserved");
		V_ASSERT(t[len - 1] == '.', "previous assign byte became a separator");
		for (i = 0; i < 2; i++) if (i < add) V_ASSERT(t[len + i] == 'a', "new element text in place");
		V_ASSERT(t[len + add] == 0, "new assign byte in place");
		nb->_vptr->unref(nb);
		}
	}
	V_WITNESS_END();
}
