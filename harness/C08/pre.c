/*
 * C08 / C09: one call of the section-prefix format parser (mpt_parse_format_pre,
 * with mpt_parse_option / mpt_parse_data / token helpers and the REAL path
 * functions) over a path whose storage is a static buffer object with a harness
 * vtable (private, mutable, fixed capacity: growth is refused).
 *
 * MODE 1 (C08, totality): input = N fully symbolic bytes.  Terminates within the
 *   unwinding bounds, reads each character at most once (getc calls <= n + 1),
 *   returns a documented code, keeps `valid` inside the stored post data, never
 *   touches memory outside the buffer (CBMC bounds checks + guard bytes).
 * MODE 2 (C09, faithful read-back): input generated from symbolic parts
 *   [blank line / comment line] ws name ws '=' ws value ws [' #' comment] '\n';
 *   the reported option name and value equal the generated ones byte for byte,
 *   whatever the insignificant decoration.
 */
#include "verif.h"
#include <string.h>
#include <sys/uio.h>
#include "types.h"
#include "array.h"
#include "config.h"
#include "parse.h"

#ifndef N
# define N 4
#endif
#ifndef PRELINE
# define PRELINE 0
#endif
#ifndef COMMENT
# define COMMENT 0
#endif
#ifndef LEAD
# define LEAD 1
#endif
#ifndef NLMAX
# define NLMAX 2
#endif
#ifndef AFTERMAX
# define AFTERMAX 2
#endif
#ifndef VLMAX
# define VLMAX 3
#endif
#define CAP PM_CAP
#define INMAX 24

static uint8_t in[INMAX];
static size_t in_len, in_pos, getc_calls;
int h_getc(void *arg)
{
	(void) arg;
	getc_calls++;
	if (in_pos >= in_len) return -2;
	return in[in_pos++];
}
#include "pathmodel.h"
/* path storage = flat model PM (pathmodel.c); sb aliases it for the oracle */
#define SBDATA pm_text
#define SBUSED pm_used
int mpt_log(MPT_INTERFACE(logger) *l, const char *f, int t, const char *fmt, ...) { (void) l; (void) f; (void) t; (void) fmt; return 0; }

static void put(uint8_t c) { if (in_len < INMAX) in[in_len++] = c; }
static void blanks(const char *nm, size_t max)
{
	size_t k = V_IN_RANGE(nm, 0, max), i;
	for (i = 0; i < max; i++) if (i < k) put(V_IN_BOOL("tab") ? '\t' : ' ');
}

void harness(void)
{
	MPT_STRUCT(parser_format) fmt = MPT_PARSER_FORMAT_INIT;
	MPT_STRUCT(parser_context) ctx = MPT_PARSER_INIT;
	MPT_STRUCT(path) p = MPT_PATH_INIT;
	size_t i;
	int r;
#if MODE == 2
	uint8_t name[2], val[3];
	size_t nl, vl;
#elif MODE == 3
	uint8_t name[2] = { 'k', 0 }, val[3];
	size_t nl = 1, vl, nb, na;
#endif
	p.base = (const char *) pm_text; p.flags = MPT_PATHFLAG(HasArray);
	p.sep = '.'; p.assign = 0;
	ctx.src.getc = h_getc; ctx.src.arg = 0;
	mpt_parse_accept(&ctx.name, 0);

#if MODE == 1
	in_len = V_IN_RANGE("n", 0, N);
	for (i = 0; i < N; i++) in[i] = V_IN_U8("in");
#elif MODE == 3
	/* mostly concrete option line: k <0..2 blanks> = <0..1 blank> <0..1 value char> \n */
#ifdef NB
	nb = NB; na = NA; vl = VL;      /* driver-side case split: text shape concrete, value character symbolic */
#else
	nb = V_IN_RANGE("blanks_before_assign", 0, 2); na = V_IN_RANGE("blanks_after_assign", 0, 1); vl = V_IN_RANGE("vallen", 0, 1);
#endif
	val[0] = V_IN_BOOL("vb") ? 'b' : 'a';
	put('k');
	if (nb > 0) put(' ');
	if (nb > 1) put(V_IN_BOOL("tab") ? '\t' : ' ');
	put('=');
	if (na) put(' ');
	if (vl) put(val[0]);
	put('\n');
#else
	/* decoration: optional blank or comment line first */
#if PRELINE == 1
	put('\n');
#elif PRELINE == 2
	put('#'); put('x'); put('\n');
#endif
#if LEAD
	blanks("lead", 1);
#endif
	nl = V_IN_RANGE("namelen", 1, NLMAX);
	for (i = 0; i < 2; i++) { name[i] = V_IN_BOOL("nb") ? 'b' : 'a'; if (i < nl) put(name[i]); }
	blanks("before_assign", 2);
	put('=');
	blanks("after_assign", AFTERMAX);
	vl = V_IN_RANGE("vallen", 0, VLMAX);
	for (i = 0; i < 3; i++) { size_t k = V_IN_RANGE("vc", 0, 2); val[i] = k == 0 ? 'a' : k == 1 ? 'b' : ' '; }
	if (vl) V_ASSUME(val[0] != ' ' && val[vl - 1] != ' ');
	for (i = 0; i < 3; i++) if (i < vl) put(val[i]);
#if LEAD
	blanks("trail", 1);
#endif
#if COMMENT
	put(' '); put('#'); put('c');
#endif
	put('\n');
#endif
	r = mpt_parse_format_pre(&fmt, &ctx, &p);

	V_ASSERT(getc_calls <= in_len + 1, "each input character is read at most once (plus one end-of-input probe)");
	V_ASSERT(SBUSED <= CAP, "path storage stays within its capacity");
	V_ASSERT(p.off + p.len <= SBUSED || r < 0, "path lies inside the stored data");
#if MODE == 1
	V_ASSERT(r == 0 || r == MPT_PARSEFLAG(Section) || r == MPT_PARSEFLAG(SectEnd) || r == MPT_PARSEFLAG(Option)
	         || r == (MPT_PARSEFLAG(Option) | MPT_PARSEFLAG(Data)) || r == MPT_PARSEFLAG(Data)
	         || r == MPT_ERROR(BadArgument) || r == MPT_ERROR(BadValue) || r == MPT_ERROR(BadType) || r == MPT_ERROR(BadOperation)
	         || r == MPT_ERROR(MissingData) || r == MPT_ERROR(MissingBuffer), "return value in the documented set");
	if (r == 0) V_ASSERT(in_pos == in_len, "end of input is reported only at the end of the input");
	if (r > 0 && (r & MPT_PARSEFLAG(Data))) V_ASSERT((size_t) ctx.valid <= SBUSED - (p.off + p.len), "reported value length lies inside the stored post data");
	if (r == MPT_PARSEFLAG(Section) || (r & MPT_PARSEFLAG(Option)) == MPT_PARSEFLAG(Option) && r > 0) V_ASSERT(p.len > 0, "a section or option event carries a path element");
#endif
#if MODE >= 2
	V_ASSERT(r == (vl ? (MPT_PARSEFLAG(Option) | MPT_PARSEFLAG(Data)) : MPT_PARSEFLAG(Option)), "an option line is reported as an option (with data iff a value is present)");
	if (r > 0) {
		const uint8_t *el = SBDATA + p.off, *post = SBDATA + p.off + p.len;
		V_ASSERT(p.len == nl + 1, "path element = option name (+ assign byte)");
		for (i = 0; i < 2; i++) if (i < nl) V_ASSERT(el[i] == name[i], "option name read back byte for byte");
		V_ASSERT(ctx.valid == vl, "value length equals the written value");
		for (i = 0; i < 3; i++) if (i < vl) V_ASSERT(post[i] == val[i], "value read back byte for byte");
	}
#endif
	V_WITNESS_END();
}
