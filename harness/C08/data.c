/*
 * C09 (value extraction) / C08 (totality of the value scanner): one
 * mpt_parse_data call (real code, path storage = flat model PM) on N symbolic
 * bytes over the alphabet {a, b, space, tab, newline, '#'} following an option
 * name already on the path.  Reference (the documented rules, written
 * independently): the value is the text up to the end of line, without leading and
 * trailing blanks, with a trailing comment (a '#' preceded by a blank) removed;
 * inner blanks are kept.  -DQUOTED: the text is a fully quoted value "…" over
 * {a, space, '#'}: the quotes are removed, everything between them is kept.
 */
#include "verif.h"
#include <string.h>
#include <sys/uio.h>
#include "types.h"
#include "config.h"
#include "parse.h"
#include "pathmodel.h"

#ifndef N
# define N 5
#endif
static uint8_t in[N + 3];
static size_t in_len, in_pos, getc_calls;
int h_getc(void *arg) { (void) arg; getc_calls++; if (in_pos >= in_len) return -2; return in[in_pos++]; }
int mpt_log(MPT_INTERFACE(logger) *l, const char *f, int t, const char *fmt, ...) { (void) l; (void) f; (void) t; (void) fmt; return 0; }

void harness(void)
{
	MPT_STRUCT(parser_format) fmt = MPT_PARSER_FORMAT_INIT;
	MPT_STRUCT(parser_context) ctx = MPT_PARSER_INIT;
	MPT_STRUCT(path) p = MPT_PATH_INIT;
	uint8_t ref[N + 1];
	size_t i, n = V_IN_RANGE("n", 0, N), rl = 0, first = N + 1, last = 0, end;
	int r;
	static const uint8_t al[6] = { 'a', 'b', ' ', '\t', '\n', '#' };

	/* option name "k" already added: element "k" + assign byte */
	pm_text[0] = 'k'; pm_text[1] = 0; pm_used = 2;
	p.base = (const char *) pm_text; p.flags = MPT_PATHFLAG(HasArray); p.off = 0; p.len = 2; p.first = 1; p.sep = '.'; p.assign = 0;
	ctx.src.getc = h_getc;
#ifndef QUOTED
	for (i = 0; i < N; i++) in[i] = al[V_IN_RANGE("ch", 0, 5)];
	in_len = n;
	/* reference */
	end = n;
	for (i = 0; i < N; i++) if (i < n && in[i] == '\n') { end = i; break; }
	for (i = 0; i < N; i++) if (i < end && in[i] == '#' && i > 0 && (in[i - 1] == ' ' || in[i - 1] == '\t')) { end = i; break; }
	for (i = 0; i < N; i++) if (i < end && in[i] != ' ' && in[i] != '\t') { if (first > N) first = i; last = i + 1; }
	if (first <= N) for (i = first; i < last; i++) ref[rl++] = in[i];
#else
	{
	static const uint8_t ql[3] = { 'a', ' ', '#' };
	in[0] = '"';
	for (i = 0; i < N; i++) { in[1 + i] = ql[V_IN_RANGE("qc", 0, 2)]; if (i < n) ref[rl++] = in[1 + i]; }
	in[1 + n] = '"'; in[2 + n] = '\n';
	in_len = n + 3;
	}
#endif
	r = mpt_parse_data(&fmt, &ctx, &p);
	V_ASSERT(getc_calls <= in_len + 1, "each input character is read at most once");
	V_ASSERT(p.off == 0 && p.len == 2 && pm_text[0] == 'k', "the option name on the path is untouched");
	V_ASSERT(r >= 0, "a value line without an explicit end delimiter is always accepted");
	V_ASSERT((size_t) r == rl && ctx.valid == rl, "value length equals the reference value");
	V_ASSERT(pm_used >= 2 + rl, "value is stored behind the path");
	for (i = 0; i < N; i++) if (i < rl) V_ASSERT(pm_text[2 + i] == ref[i], "value read back byte for byte");
	V_WITNESS_END();
}
