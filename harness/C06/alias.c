/*
 * C06 (alias lookup): mpt_alias_typeid("<name><blanks>:<blanks><symbol>") resolves the
 * name in front of the separator - whatever number of blanks or tabs (0..2, symbolic)
 * stands before and after the ':' - to the identifier mpt_named_traits() gives for the
 * plain name, and reports the start of the symbol; a bare name resolves likewise, a
 * name followed by blanks only is not a registered name.
 */
#include "verif.h"
#include <string.h>
#include "types.h"
#include "meta.h"
int atexit(void (*fn)(void)) { (void) fn; return 0; }
#ifndef NAME
# define NAME "logger"
#endif
void harness(void)
{
	static const char nm[] = NAME;
	char d[sizeof(nm) + 8];
	const char *end = 0;
	const MPT_STRUCT(named_traits) *t = mpt_named_traits(nm, -1);
	size_t n = sizeof(nm) - 1, k = V_IN_RANGE("blanks_before", 0, 2), k2 = V_IN_RANGE("blanks_after", 0, 2), i, sym = 0;
	int sep = V_IN_BOOL("separator"), r;

	V_ASSERT(t != 0, "the plain name is registered");
	memcpy(d, nm, n);
	for (i = 0; i < 2; i++) if (i < k) d[n++] = V_IN_BOOL("tab") ? '\t' : ' ';
	if (sep) {
		d[n++] = ':';
		for (i = 0; i < 2; i++) if (i < k2) d[n++] = V_IN_BOOL("tab") ? '\t' : ' ';
		sym = n;
		d[n++] = 's';
	}
	d[n] = 0;
	r = mpt_alias_typeid(d, &end);
	if (!sep && k) {
		V_ASSERT(r < 0, "a name with trailing blanks and no separator is not a registered name");
	} else {
		V_ASSERT(t && r == (int) t->type, "the alias resolves to the identifier of the plain name");
		V_ASSERT(end == (sep ? d + sym : d + n), "the symbol start is reported");
	}
	V_WITNESS_END();
}
