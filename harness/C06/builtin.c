/*
 * C06 family 1: every id 0..0x1100 looked up in the fresh registry.
 * Known built-in scalar / vector / core / interface ids report the size of the C
 * type they stand for and no construction behaviour; the lookup never leaves its
 * tables (CBMC bounds checks) for any id.
 */
#include "verif.h"
#include <sys/uio.h>
#include "types.h"
#include "meta.h"
#include "object.h"
#include "array.h"
#include "event.h"
#include "convert.h"

struct exp { unsigned id; size_t size; };
static const struct exp table[] = {
	{ 'c', sizeof(char) }, { 'b', sizeof(int8_t) }, { 'y', sizeof(uint8_t) }, { 'n', sizeof(int16_t) }, { 'q', sizeof(uint16_t) },
	{ 'i', sizeof(int32_t) }, { 'u', sizeof(uint32_t) }, { 'x', sizeof(int64_t) }, { 't', sizeof(uint64_t) },
	{ 'f', sizeof(float) }, { 'd', sizeof(double) }, { 's', sizeof(char *) },
	{ MPT_ENUM(TypeUnixSocket), sizeof(int) }, { MPT_ENUM(TypeFilePtr), sizeof(void *) }, { MPT_ENUM(TypeAddressPtr), sizeof(void *) },
	{ MPT_ENUM(TypeNodePtr), sizeof(void *) }, { MPT_ENUM(TypeReplyDataPtr), sizeof(void *) },
	{ MPT_ENUM(TypeValFmt), sizeof(MPT_STRUCT(value_format)) }, { MPT_ENUM(TypeValue), sizeof(MPT_STRUCT(value)) },
	{ MPT_ENUM(TypeProperty), sizeof(MPT_STRUCT(property)) },
	{ MPT_ENUM(TypeConvertablePtr), sizeof(void *) }, { MPT_ENUM(TypeLoggerPtr), sizeof(void *) }, { MPT_ENUM(TypeReplyPtr), sizeof(void *) },
	{ MPT_ENUM(TypeOutputPtr), sizeof(void *) }, { MPT_ENUM(TypeObjectPtr), sizeof(void *) }, { MPT_ENUM(TypeConfigPtr), sizeof(void *) },
	{ MPT_ENUM(TypeIteratorPtr), sizeof(void *) }, { MPT_ENUM(TypeCollectionPtr), sizeof(void *) }, { MPT_ENUM(TypeSolverPtr), sizeof(void *) },
	{ MPT_ENUM(TypeMetaPtr), sizeof(void *) },
};
#define NT (sizeof(table) / sizeof(table[0]))

int atexit(void (*fn)(void)) { (void) fn; return 0; }

void harness(void)
{
	unsigned id = (unsigned) V_IN_RANGE("id", 0, 0x1100), k;
	const MPT_STRUCT(type_traits) *t = mpt_type_traits(id);
	for (k = 0; k < NT; k++) {
		if (id == table[k].id) {
			V_ASSERT(t != 0, "built-in type is known to the registry");
			if (t) {
				V_ASSERT(t->size == table[k].size, "built-in type reports the size of its C type");
				V_ASSERT(t->init == 0 && t->fini == 0, "plain built-in type has no construction behaviour");
			}
		}
		/* vector of a scalar: an iovec */
		if (table[k].id >= 0x60 && table[k].id <= 0x7a && id == table[k].id - 0x20) {
			V_ASSERT(t != 0 && t->size == sizeof(struct iovec), "vector type is described as an iovec");
		}
	}
	if (id == 0) V_ASSERT(t == 0, "id 0 is not a type");
	if (t) V_ASSERT(t->size != 0, "every resolvable type has a size");
	if (id > MPT_ENUM(_TypeValueMax) || (id >= 0xc0 && id <= 0xff) || (id >= 0x900 && id <= 0xfff) || (id >= 0x101 && id <= 0x7ff))
		V_ASSERT(t == 0, "ids of unregistered dynamic/generic/metatype slots do not resolve in a fresh registry");
	V_WITNESS_END();
}
