/*
 * C06 family 3: one registration from an ARBITRARY fill level of its range,
 * including the last usable slot and the exhausted range (a history would need
 * up to 1792 registrations).  type_traits.c is included textually so that the
 * registry's file-static state can be constructed directly:
 *  KIND 0 metatype ids  0x100..0x7ff: NFULL full 30-entry chunks + one chunk with a symbolic fill 0..30
 *  KIND 1 generic ids   0x900..0xfff: same
 *  KIND 2 interface ids 0x80..0xbf:   fill 0..64 symbolic
 *  KIND 3 basic ids     0xc0..0xff:   fill 0..64 symbolic
 * Oracle: the id handed out is base + number of earlier registrations, lies in
 * the kind's range and is stored in its slot; with the range exhausted the
 * registration fails and no fill level or chunk link changes.
 */
#include "verif.h"
#include <stdlib.h>
#include <string.h>
#include <errno.h>
int atexit(void (*fn)(void)) { (void) fn; return 0; }
#include "types/type_traits.c"

#ifndef KIND
# define KIND 0
#endif
#ifndef NFULL
# define NFULL 59
#endif

static struct named_traits_chunk mch[NFULL + 1];
static struct generic_traits_chunk gch[NFULL + 1];
static MPT_STRUCT(named_traits) *itab[64];
static MPT_STRUCT(type_traits) dtab[64];
static const MPT_STRUCT(type_traits) some = MPT_TYPETRAIT_INIT(12);

void harness(void)
{
	size_t i;
	unsigned fill;
#if KIND == 0 || KIND == 1
	long expect;
	int link_last = V_IN_BOOL("spare_chunk_linked");
	fill = (unsigned) V_IN_RANGE("fill", 0, 30);
	for (i = 0; i < NFULL; i++) {
# if KIND == 0
		mch[i].used = 30; mch[i].next = (i + 1 < NFULL) ? &mch[i + 1] : 0;
# else
		gch[i].used = 30; gch[i].next = (i + 1 < NFULL) ? &gch[i + 1] : 0;
# endif
	}
	/* the partly filled chunk: present unless the fill is 0 and it was never appended */
# if KIND == 0
	mch[NFULL].used = (uint8_t) fill; mch[NFULL].next = 0;
	if (NFULL) { if (fill || link_last) mch[NFULL - 1].next = &mch[NFULL]; }
	meta_types = NFULL ? &mch[0] : &mch[NFULL];
	expect = MPT_ENUM(_TypeMetaPtrBase) + 30L * NFULL + fill;
	{
	const MPT_STRUCT(named_traits) *e = mpt_type_metatype_add(0);
	if (expect > MPT_ENUM(_TypeMetaPtrMax)) {
		V_ASSERT(e == 0, "registration in an exhausted range fails");
		V_ASSERT(mch[NFULL].used == fill, "failed registration disturbs no fill level");
	} else {
		V_ASSUME(e != 0);   /* allocation failure is not the subject */
		V_ASSERT((long) e->type == expect, "id = base + number of earlier registrations");
		V_ASSERT(MPT_type_isMetaPtr(e->type), "metatype id lies in the metatype range");
		if (fill < 30 && (fill || link_last || !NFULL)) V_ASSERT(mch[NFULL].used == fill + 1 && mch[NFULL].traits[fill] == e, "entry stored in its slot");
	}
	}
	for (i = 0; i < NFULL; i++) V_ASSERT(mch[i].used == 30 && (i + 2 > NFULL || mch[i].next == &mch[i + 1]), "existing chunks undisturbed");
# else
	gch[NFULL].used = (uint8_t) fill; gch[NFULL].next = 0;
	if (NFULL) { if (fill || link_last) gch[NFULL - 1].next = &gch[NFULL]; }
	generic_types = NFULL ? &gch[0] : &gch[NFULL];
	expect = MPT_ENUM(_TypeValueAdd) + 30L * NFULL + fill;
	{
	int id = mpt_type_add(&some);
	if (expect > MPT_ENUM(_TypeValueMax)) {
		V_ASSERT(id < 0, "registration in an exhausted range fails");
		V_ASSERT(gch[NFULL].used == fill, "failed registration disturbs no fill level");
	} else {
		V_ASSUME(id != MPT_ERROR(BadOperation));   /* allocation failure is not the subject */
		V_ASSERT(id == expect, "id = base + number of earlier registrations");
		V_ASSERT(id >= MPT_ENUM(_TypeValueAdd) && id <= MPT_ENUM(_TypeValueMax), "generic id lies in the generic range");
		if (fill < 30 && (fill || link_last || !NFULL)) V_ASSERT(gch[NFULL].used == fill + 1 && gch[NFULL].traits[fill] == &some, "entry stored in its slot");
	}
	}
	for (i = 0; i < NFULL; i++) V_ASSERT(gch[i].used == 30 && (i + 2 > NFULL || gch[i].next == &gch[i + 1]), "existing chunks undisturbed");
# endif
#elif KIND == 2
	fill = (unsigned) V_IN_RANGE("fill", MPT_ENUM(_TypeInterfaceAdd) - MPT_ENUM(_TypeInterfaceBase), 64);
	interface_types = itab; interface_pos = (int) fill;
	{
	const MPT_STRUCT(named_traits) *e = mpt_type_interface_add(0);
	if (fill >= 64) {
		V_ASSERT(e == 0 && interface_pos == 64, "registration in an exhausted range fails and leaves the fill level");
	} else {
		V_ASSUME(e != 0);
		V_ASSERT(e->type == MPT_ENUM(_TypeInterfaceBase) + fill && MPT_type_isInterface(e->type), "interface id = base + fill, inside the interface range");
		V_ASSERT(interface_pos == (int) fill + 1 && itab[fill] == e, "entry stored in its slot");
	}
	}
#else
	fill = (unsigned) V_IN_RANGE("fill", 0, 64);
	dynamic_types = dtab; dynamic_pos = (int) fill;
	{
	size_t sz = V_IN_RANGE("size", 0, 40);
	int id = mpt_type_basic_add(sz);
	if (fill >= 64) {
		V_ASSERT(id < 0 && dynamic_pos == 64, "registration in an exhausted range fails and leaves the fill level");
	} else {
		V_ASSERT(id == (int) (MPT_ENUM(_TypeDynamicBase) + fill) && MPT_type_isDynamic(id), "basic id = base + fill, inside the dynamic range");
		V_ASSERT(dynamic_pos == (int) fill + 1 && dtab[fill].size == (sz ? sz : sizeof(void *)), "entry stored in its slot with its size");
	}
	}
#endif
	V_WITNESS_END();
}
