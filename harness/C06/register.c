/*
 * C06 family 2: a history of K registrations (kind symbolic) on the fresh
 * registry, each followed by lookups.  Ids are unique, lie in the range of their
 * kind, resolve back to the same description (by id and by name), earlier ids
 * keep resolving to the same object; duplicate / too short names are refused.
 */
#include "verif.h"
#include <string.h>
#include "types.h"
#include "meta.h"

#ifndef KF_C06_NAME_CROSS_KIND
# define KF_C06_NAME_CROSS_KIND 0
#endif
#ifndef K
# define K 3
#endif
int atexit(void (*fn)(void)) { (void) fn; return 0; }
static const MPT_STRUCT(type_traits) tr[2] = { MPT_TYPETRAIT_INIT(12), MPT_TYPETRAIT_INIT(20) };
static const char *names[4] = { "solve", "beta_", "abc", "object" };   /* "object" is the name of a built-in interface */   /* "solve" is a proper prefix of the built-in interface "solver" */   /* third is too short */

void harness(void)
{
	unsigned ids[K]; const void *obj[K]; int kind[K]; int nameidx[K];
	int n = 0, k, j;
#if defined(OPS) && defined(NAMEIDX)
	/* region: the same (long enough) name registered both as interface and as metatype.  The kind and
	 * name sequences are fixed by the driver, so membership is decided once, before the history
	 * (a constraint inside the loop would cut the twin's path at the first step outside the region) */
	{ static const int o_[] = OPS, n_[] = NAMEIDX; int cross = 0, a, b;
	  for (a = 0; a < K; a++) for (b = 0; b < a; b++)
		if (o_[a] >= 2 && o_[b] >= 2 && o_[a] != o_[b] && n_[a] == n_[b] && n_[a] != 2) cross = 1;
	  V_KF(KF_C06_NAME_CROSS_KIND, cross); }
#endif
	for (k = 0; k < K; k++) {
#ifdef OPS
		static const int opseq[] = OPS;
		int op = opseq[k];
#else
		int op = (int) V_IN_RANGE("op", 0, 3);
#endif
		if (op == 0) {
			size_t sz = V_IN_RANGE("size", 0, 40);
			int id = mpt_type_basic_add(sz);
			V_ASSERT(id >= MPT_ENUM(_TypeDynamicBase) && id <= MPT_ENUM(_TypeDynamicMax), "basic type id lies in the dynamic range");
			{ const MPT_STRUCT(type_traits) *t = mpt_type_traits(id);
			  V_ASSERT(t && t->size == (sz ? sz : sizeof(void *)) && !t->init && !t->fini, "basic type resolves to its size");
			  ids[n] = id; obj[n] = t; kind[n] = 0; nameidx[n] = -1; n++; }
		}
		else if (op == 1) {
			int w = V_IN_BOOL("which");
			int id = mpt_type_add(&tr[w]);
			V_ASSERT(id >= MPT_ENUM(_TypeValueAdd) && id <= MPT_ENUM(_TypeValueMax), "generic type id lies in the generic range");
			V_ASSERT(mpt_type_traits(id) == &tr[w], "generic type resolves to the registered description");
			ids[n] = id; obj[n] = &tr[w]; kind[n] = 1; nameidx[n] = -1; n++;
		}
		else {
#ifdef NAMEIDX
			static const int nameseq[] = NAMEIDX;
			int ni = nameseq[k], dup = 0;
#else
			int ni = (int) V_IN_RANGE("name", 0, 2), dup = 0;
#endif
			const MPT_STRUCT(named_traits) *e;
			for (j = 0; j < n; j++) if (nameidx[j] == ni && kind[j] == op) dup = 1;   /* duplicates are per kind */
			if (op == 2 && ni == 3) dup = 1;   /* the name of a built-in interface is taken from the start */
#if !(defined(OPS) && defined(NAMEIDX))
			{ int cross = 0; for (j = 0; j < n; j++) if (nameidx[j] == ni && kind[j] != op && kind[j] >= 2) cross = 1;
			  /* region: the same name registered both as interface and as metatype */
			  V_KF(KF_C06_NAME_CROSS_KIND, cross); }
#endif
			e = (op == 2) ? mpt_type_interface_add(names[ni]) : mpt_type_metatype_add(names[ni]);
			if (ni == 2) { V_ASSERT(e == 0, "names shorter than 4 characters are refused"); continue; }
			if (dup) { V_ASSERT(e == 0, "duplicate names are refused"); continue; }
			V_ASSERT(e != 0, "fresh name of sufficient length is accepted");
			if (!e) continue;
			if (op == 2) V_ASSERT(e->type >= MPT_ENUM(_TypeInterfaceAdd) && e->type <= MPT_ENUM(_TypeInterfaceMax), "interface id lies in the interface range");
			else V_ASSERT(e->type > MPT_ENUM(_TypeMetaPtrBase) && e->type <= MPT_ENUM(_TypeMetaPtrMax), "metatype id lies in the metatype range");
			V_ASSERT(e->name && !strcmp(e->name, names[ni]), "entry carries its name");
			V_ASSERT(e->traits && e->traits->size == sizeof(void *), "named type is described as a pointer");
			V_ASSERT(((op == 2) ? mpt_interface_traits(e->type) : mpt_metatype_traits(e->type)) == e, "id resolves to the entry");
			V_ASSERT(mpt_named_traits(names[ni], -1) == e, "name resolves to the entry");
			V_ASSERT(mpt_named_traits(names[ni], 5) == e, "length-limited name resolves to the entry");
			V_ASSERT(mpt_type_traits(e->type) == e->traits, "generic lookup agrees");
			ids[n] = (unsigned) e->type; obj[n] = e; kind[n] = op; nameidx[n] = ni; n++;
		}
		/* uniqueness and stability of everything registered so far */
		for (j = 0; j < n; j++) {
			int i2;
			for (i2 = 0; i2 < j; i2++) V_ASSERT(ids[i2] != ids[j], "ids are unique");
			if (kind[j] == 0 || kind[j] == 1) V_ASSERT(mpt_type_traits(ids[j]) == obj[j], "earlier id keeps resolving to the same description");
			else if (kind[j] == 2) V_ASSERT(mpt_interface_traits(ids[j]) == obj[j], "earlier interface id keeps resolving");
			else V_ASSERT(mpt_metatype_traits(ids[j]) == obj[j], "earlier metatype id keeps resolving");
		}
	}
	V_WITNESS_END();
}
