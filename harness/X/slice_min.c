#include "verif.h"
#include <string.h>
#include "types.h"
#include "array.h"
int h_init(void *p, const void *s){ *(uint32_t*)p = 7; return 1; }
void h_fini(void *p){ *(uint32_t*)p = 0; }
static const MPT_STRUCT(type_traits) h_traits = { h_init, h_fini, 4 };
void harness(void){
  MPT_STRUCT(array) arr = MPT_ARRAY_INIT;
  MPT_STRUCT(buffer) *buf = _mpt_buffer_alloc(12, 0);
  __CPROVER_assume(buf != 0);
#ifdef TYPED
  buf->_content_traits = &h_traits;
#endif
  arr._buf = buf;
  #ifdef CONC
  size_t pos = 4, len = 8;
#else
  size_t pos = 4 * V_IN_RANGE("p", 0, 5), len = 4 * V_IN_RANGE("l", 0, 3);
#endif
#ifdef USED
  buf->_used = 4 * V_IN_RANGE("u", 0, 3);
#endif
  void *p = mpt_array_slice(&arr, pos, len);
  __CPROVER_assert(arr._buf->_used <= arr._buf->_size, "used<=size");
}
