/*
 * C13: one queue operation from an arbitrary valid ring state.
 *
 * State: store of MAXQ bytes, symbolic (max in 1..MAXQ, off <= max, len <= max)
 * and symbolic content: every (capacity, start offset, fill) triple incl. every
 * wrap position.  Model: byte array in logical order, read by the harness' own
 * modular indexing (independent of mpt_queue_get).
 * -DOP=<n> selects the operation.  Bytes of the store beyond `max` are a guard:
 * they must never change.
 */
#include "verif.h"
#include <string.h>
#include <errno.h>
#include <stdlib.h>
#include "queue.h"

#ifndef MAXQ
# define MAXQ 6
#endif
#define GUARD 4

#define OP_PUSH 1
#define OP_UNSHIFT 2
#define OP_POP 3
#define OP_SHIFT 4
#define OP_CROP 5
#define OP_GET 6
#define OP_SET 7
#define OP_POST 8
#define OP_PRE 9
#define OP_DATA_EMPTY 10
#define OP_ALIGN 11
#define OP_STRING 12
#define OP_FIND 13
#define OP_MEMREV 14
#define OP_RESIZE 15

#ifndef KF_C13_QPOP_SPLIT
# define KF_C13_QPOP_SPLIT 0
#endif
#ifndef KF_C13_CROP_WRAP
# define KF_C13_CROP_WRAP 0
#endif
#ifndef KF_C13_ALIGN_SPLIT
# define KF_C13_ALIGN_SPLIT 0
#endif

static uint8_t store[MAXQ + GUARD];
static uint8_t store0[MAXQ + GUARD];
static uint8_t model[MAXQ];      /* logical content before the op */
static MPT_STRUCT(queue) q;

static uint8_t logical(const MPT_STRUCT(queue) *qu, size_t i)
{
	size_t p = qu->off + i;
	if (p >= qu->max) p -= qu->max;
	return store[p];
}
static void guards_ok(void)
{
	size_t i;
	for (i = 0; i < MAXQ + GUARD; i++) {
		if (i >= q.max) V_ASSERT(store[i] == store0[i], "bytes outside the storage area are untouched");
	}
}
static void inv_ok(void)
{
	V_ASSERT(q.base == store, "base unchanged");
	V_ASSERT(q.len <= q.max, "len <= max");
	V_ASSERT(q.off <= q.max, "off <= max");
}
static void unchanged(size_t off0, size_t len0, size_t max0)
{
	size_t i;
	V_ASSERT(q.len == len0, "refused operation keeps the length");
	V_ASSERT(q.max == max0, "capacity unchanged");
	(void) off0;
	for (i = 0; i < MAXQ; i++) {
		if (i < len0) V_ASSERT(logical(&q, i) == model[i], "refused operation keeps the content");
	}
}
int find_cmp(const void *el, void *arg)
{
	return *((const uint8_t *) el) != *((uint8_t *) arg);
}

void harness(void)
{
	size_t max, off, len, i, n, pos;
	uint8_t data[MAXQ + 2];
	uint8_t out[MAXQ + 2];
	int ret;

#ifdef MAXC
	/* driver-side case split over the ring state (bytes stay symbolic) */
	max = MAXC; off = OFFC; len = LENC;
#else
	max = V_IN_RANGE("max", 1, MAXQ);
	off = V_IN_RANGE("off", 0, MAXQ);
	len = V_IN_RANGE("len", 0, MAXQ);
#endif
	V_ASSUME(off <= max && len <= max);
#ifdef OFF_LT_MAX
	V_ASSUME(off < max);
#endif
	for (i = 0; i < MAXQ + GUARD; i++) { store[i] = V_IN_U8("store"); store0[i] = store[i]; }
	q.base = store; q.max = max; q.off = off; q.len = len;
	for (i = 0; i < MAXQ; i++) model[i] = (i < len) ? logical(&q, i) : 0;
	for (i = 0; i < MAXQ + 2; i++) { data[i] = V_IN_U8("data"); out[i] = 0x5A; }
	n = V_IN_RANGE("n", 0, MAXQ + 1);
	pos = V_IN_RANGE("pos", 0, MAXQ + 1);
	V_WITNESS_REGION(
#ifdef WITNESS_WRAPPED
		1
#else
		0
#endif
		, off + len > max && len > 0 && n >= 2);

#if OP == OP_PUSH || OP == OP_POST
# if OP == OP_PUSH
	ret = mpt_qpush(&q, n, data);
# else
	ret = mpt_qpost(&q, n) < 0 ? -1 : 0;
# endif
	inv_ok(); guards_ok();
	if (ret < 0) {
		V_ASSERT(n > max - len || n == 0, "push of 1..free bytes is accepted");
		unchanged(off, len, max);
	} else {
		V_ASSERT(n <= max - len, "push of more than the free space is refused");
		V_ASSERT(q.len == len + n, "length grows by the pushed amount");
		for (i = 0; i < MAXQ; i++) {
			if (i < len) V_ASSERT(logical(&q, i) == model[i], "old content kept in place (logical order)");
# if OP == OP_PUSH
			else if (i < len + n) V_ASSERT(logical(&q, i) == data[i - len], "pushed bytes appear at the end");
# endif
		}
	}
#elif OP == OP_UNSHIFT || OP == OP_PRE
# if OP == OP_UNSHIFT
	ret = mpt_qunshift(&q, n, data);
# else
	ret = mpt_qpre(&q, n) < 0 ? -1 : 0;
# endif
	inv_ok(); guards_ok();
	if (ret < 0) {
		V_ASSERT(n > max - len || n == 0, "unshift of 1..free bytes is accepted");
		unchanged(off, len, max);
	} else {
		V_ASSERT(n <= max - len, "unshift of more than the free space is refused");
		V_ASSERT(q.len == len + n, "length grows by the inserted amount");
		for (i = 0; i < MAXQ; i++) {
# if OP == OP_UNSHIFT
			if (i < n) V_ASSERT(logical(&q, i) == data[i], "inserted bytes appear at the front");
# endif
			if (i >= n && i < len + n) V_ASSERT(logical(&q, i) == model[i - n], "old content follows the inserted bytes");
		}
	}
#elif OP == OP_POP
	{
	uint8_t *r;
	V_KF(KF_C13_QPOP_SPLIT, (off + len > max) && n > (off + len - max) && n <= len);
	r = mpt_qpop(&q, n, out);
	inv_ok(); guards_ok();
	if (!r) {
		V_ASSERT(n > len, "pop of at most the stored amount is accepted");
		unchanged(off, len, max);
	} else {
		V_ASSERT(n <= len, "pop of more than stored is refused");
		V_ASSERT(q.len == len - n, "length shrinks by the popped amount");
		for (i = 0; i < MAXQ; i++) {
			if (i < n) V_ASSERT(out[i] == model[len - n + i], "popped bytes are the last n bytes in order");
			if (i < len - n) V_ASSERT(logical(&q, i) == model[i], "remaining content unchanged");
		}
		V_ASSERT(out[MAXQ] == 0x5A && out[MAXQ + 1] == 0x5A, "no write past the caller's buffer");
	}
	}
#elif OP == OP_SHIFT
	{
	uint8_t *r = mpt_qshift(&q, n, out);
	inv_ok(); guards_ok();
	if (!r) {
		V_ASSERT(n > len, "shift of at most the stored amount is accepted");
		unchanged(off, len, max);
	} else {
		V_ASSERT(n <= len, "shift of more than stored is refused");
		V_ASSERT(q.len == len - n, "length shrinks by the shifted amount");
		for (i = 0; i < MAXQ; i++) {
			if (i < n) V_ASSERT(out[i] == model[i], "shifted bytes are the first n bytes in order");
			if (i < len - n) V_ASSERT(logical(&q, i) == model[i + n], "remaining content unchanged");
		}
	}
	for (i = n; i < MAXQ + 2; i++) V_ASSERT(out[i] == 0x5A, "no write past the requested length");
	}
#elif OP == OP_CROP
	V_KF(KF_C13_CROP_WRAP, pos > 0 && (off + len > max) && pos < (max - off) && pos + n > (max - off));
	ret = mpt_queue_crop(&q, pos, n);
	inv_ok(); guards_ok();
	if (ret < 0) {
		V_ASSERT(pos + n > len, "crop inside the data is accepted");
		unchanged(off, len, max);
	} else {
		V_ASSERT(pos + n <= len, "crop beyond the data is refused");
		V_ASSERT(q.len == len - n, "length shrinks by the cropped amount");
		for (i = 0; i < MAXQ; i++) {
			if (i < pos) V_ASSERT(logical(&q, i) == model[i], "content before the crop unchanged");
			else if (i < len - n) V_ASSERT(logical(&q, i) == model[i + n], "content after the crop moves up");
		}
	}
#elif OP == OP_GET
	ret = mpt_queue_get(&q, pos, n, out);
	inv_ok(); guards_ok();
	V_ASSERT(q.len == len && q.off == off, "get does not change the queue");
	for (i = 0; i < MAXQ + GUARD; i++) V_ASSERT(store[i] == store0[i], "get does not change the storage");
	if (ret < 0) {
		V_ASSERT(pos + n > len, "get inside the data is accepted");
	} else {
		V_ASSERT(pos + n <= len || n == 0, "get beyond the data is refused");
		for (i = 0; i < MAXQ; i++) if (i < n) V_ASSERT(out[i] == model[pos + i], "get returns the stored bytes");
	}
	for (i = n; i < MAXQ + 2; i++) V_ASSERT(out[i] == 0x5A, "no write past the requested length");
#elif OP == OP_SET
	{
	int zero = V_IN_BOOL("zero_fill");
	ret = mpt_queue_set(&q, pos, n, zero ? (const void *) 0 : (const void *) data);
	inv_ok(); guards_ok();
	V_ASSERT(q.len == len && q.off == off, "set does not change offsets");
	if (ret < 0) {
		V_ASSERT(pos + n > len, "set inside the data is accepted");
		unchanged(off, len, max);
	} else {
		V_ASSERT(pos + n <= len || n == 0, "set beyond the data is refused");
		for (i = 0; i < MAXQ; i++) {
			if (i >= len) continue;
			if (i >= pos && i < pos + n) V_ASSERT(logical(&q, i) == (zero ? 0 : data[i - pos]), "set range holds the new bytes");
			else V_ASSERT(logical(&q, i) == model[i], "bytes outside the set range unchanged");
		}
	}
	}
#elif OP == OP_DATA_EMPTY
	{
	size_t low = 0, elow = 0, ehigh = 0;
	uint8_t *d = mpt_queue_data(&q, &low);
	uint8_t *e = mpt_queue_empty(&q, &elow, &ehigh);
	V_ASSERT(low <= len, "first data segment not longer than content");
	V_ASSERT(d == store + off, "data starts at the offset");
	V_ASSERT(off + low <= max, "first data segment inside the storage");
	for (i = 0; i < MAXQ; i++) if (i < low) V_ASSERT(d[i] == model[i], "first segment holds the first bytes");
	for (i = 0; i < MAXQ; i++) if (i >= low && i < len) V_ASSERT(store[i - low] == model[i], "second segment starts at the base");
	if (!e) {
		V_ASSERT(len == max, "no empty part only if full");
	} else {
		V_ASSERT(elow + ehigh == max - len, "empty parts tile the free space");
		V_ASSERT(e >= store && e + elow <= store + max, "empty part inside the storage");
		V_ASSERT((size_t) (e - store) == (off + len) % max || (off == max && (size_t)(e - store) == len) , "empty part follows the data");
		if (ehigh) V_ASSERT(ehigh == off && (size_t)(e - store) + elow == max, "second empty part is the space before the offset");
	}
	}
#elif OP == OP_ALIGN
	/* region: the requested start position makes the content wrap (split branch) */
	V_KF(KF_C13_ALIGN_SPLIT, len > 0 && pos <= max && pos > max - len);
	mpt_queue_align(&q, pos);
	inv_ok(); guards_ok();
	V_ASSERT(q.len == len, "align keeps the length");
	for (i = 0; i < MAXQ; i++) if (i < len) V_ASSERT(logical(&q, i) == model[i], "align keeps the content");
	if (pos == 0 && len) V_ASSERT(q.off == 0, "align(0) makes the data start at the base");
#elif OP == OP_STRING
	{
	char *s = mpt_queue_string(&q);
	inv_ok(); guards_ok();
	if (!s) {
		V_ASSERT(len == max, "string view refused only for a full queue");
		unchanged(off, len, max);
	} else {
		V_ASSERT(q.len == len, "string view keeps the length");
		V_ASSERT((uint8_t *) s >= store && (uint8_t *) s + len < store + max, "string and terminator inside the storage");
		for (i = 0; i < MAXQ; i++) if (i < len) V_ASSERT((uint8_t) s[i] == model[i], "string view shows the content");
		V_ASSERT(s[len] == 0, "string view is terminated");
		for (i = 0; i < MAXQ; i++) if (i < len) V_ASSERT(logical(&q, i) == model[i], "content unchanged");
	}
	}
#elif OP == OP_FIND
	{
	uint8_t tok = V_IN_U8("tok");
	uint8_t *r = mpt_queue_find(&q, 1, find_cmp, &tok);
	size_t first = MAXQ;
	for (i = MAXQ; i-- > 0; ) if (i < len && model[i] == tok) first = i;
	for (i = 0; i < MAXQ + GUARD; i++) V_ASSERT(store[i] == store0[i], "find does not change the storage");
	if (first == MAXQ) V_ASSERT(r == 0, "absent element is not found");
	else {
		size_t p = off + first; if (p >= max) p -= max;
		V_ASSERT(r == store + p, "find returns the first matching element");
	}
	}
#elif OP == OP_MEMREV
	{
	/* rotate: swap [0,pre) and [pre,len) of a plain block */
	size_t pre = pos;
	ret = mpt_memrev(store, pre, len);
	if (ret < 0) {
		V_ASSERT(pre > len, "valid pivot accepted");
		for (i = 0; i < MAXQ + GUARD; i++) V_ASSERT(store[i] == store0[i], "refused memrev changes nothing");
	} else {
		V_ASSERT(pre <= len, "pivot beyond the block refused");
		for (i = 0; i < MAXQ + GUARD; i++) {
			if (i < len - pre) V_ASSERT(store[i] == store0[i + pre], "upper part moved to the front");
			else if (i < len) V_ASSERT(store[i] == store0[i - (len - pre)], "lower part moved to the back");
			else V_ASSERT(store[i] == store0[i], "bytes beyond the block untouched");
		}
	}
	}
#elif OP == OP_RESIZE
	{
	/* heap-backed store: grow / shrink / release; on shrinking the oldest bytes are dropped */
	uint8_t *heap = malloc(max);
	#ifdef NSZC
	size_t nsz = NSZC, keep, drop;
#else
	size_t nsz = V_IN_RANGE("newsize", 0, MAXQ + 2), keep, drop;
#endif
	void *r;
	V_ASSUME(heap != 0);
	for (i = 0; i < MAXQ; i++) if (i < max) heap[i] = store[i];
	q.base = heap;
	r = mpt_queue_resize(&q, nsz);
	keep = (nsz && nsz < max && len > nsz) ? nsz : (nsz ? len : 0);
	drop = len - keep;
	V_ASSERT(q.len == keep, "resize keeps as much content as fits (dropping the oldest bytes)");
	if (nsz) {
		V_ASSERT(r != 0 && q.base == r && q.max == (nsz == max ? max : nsz), "storage has the requested size");
		V_ASSERT(q.off <= q.max && q.len <= q.max, "offsets inside the new storage");
		for (i = 0; i < MAXQ; i++) if (i < keep) {
			size_t pp = q.off + i; if (pp >= q.max) pp -= q.max;
			V_ASSERT(((uint8_t *) q.base)[pp] == model[drop + i], "remaining content is the newest bytes in order");
		}
		free(q.base);
	} else {
		V_ASSERT(q.base == 0 && q.max == 0, "size 0 releases the storage");
	}
	V_WITNESS_END();
	return;
	}
#else
# error "OP not set"
#endif
	V_WITNESS_END();
}
