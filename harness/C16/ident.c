/*
 * C16: identifier set/copy/compare from an arbitrary previous content length.
 * Storage sizes S (dest) and S2 (copy source) are compile-time parameters; content
 * lengths l0 (previous) and l1 (new) are symbolic over 0..LMAX where LMAX exceeds
 * the inline capacity (S-4) by 3, so inline<->external switches in both directions
 * are inside the range.  Guards around the storage; heap ledger by
 * --memory-leak-check and CBMC's free() checks.
 */
#include "verif.h"
#include <string.h>
#include <stdlib.h>
#include "core.h"

#ifndef S
# define S 16
#endif
#ifndef S2
# define S2 16
#endif
#define CAP(s) ((s) - 4)
#define LMAX (CAP(S > S2 ? S : S2) + 3)
#define OP_SET 1
#define OP_COPY 2
#define OP_ZERO 3

struct slot { uint8_t g0[8]; union { MPT_STRUCT(identifier) id; uint8_t raw[S]; } u; uint8_t g1[8]; };
struct slot2 { uint8_t g0[8]; union { MPT_STRUCT(identifier) id; uint8_t raw[S2]; } u; uint8_t g1[8]; };

static void guards(const uint8_t *g0, const uint8_t *g1)
{
	int i;
	for (i = 0; i < 8; i++) V_ASSERT(g0[i] == 0xC3 && g1[i] == 0xC3, "bytes around the identifier storage are untouched");
}

void harness(void)
{
	struct slot a;
	struct slot2 b;
	char n0[LMAX + 1], n1[LMAX + 1];
	size_t l0 = V_IN_RANGE("l0", 0, LMAX), l1 = V_IN_RANGE("l1", 0, LMAX), i;
	MPT_STRUCT(identifier) *id = &a.u.id, *src = &b.u.id;
	const char *d;
	void *r;

	for (i = 0; i < 8; i++) { a.g0[i] = a.g1[i] = b.g0[i] = b.g1[i] = 0xC3; }
	for (i = 0; i < LMAX + 1; i++) { n0[i] = (char) V_IN_U8("n0"); n1[i] = (char) V_IN_U8("n1"); }
	mpt_identifier_init(id, S);
	mpt_identifier_init(src, S2);
	V_ASSERT(id->_max == CAP(S), "inline capacity is storage minus header");

	/* previous content */
	r = mpt_identifier_set(id, n0, (int) l0);
	V_ASSERT(r != 0, "set of a permitted length succeeds");
#if OP == OP_SET
	r = mpt_identifier_set(id, n1, (int) l1);
	V_ASSERT(r != 0, "set of a permitted length succeeds");
#elif OP == OP_COPY
	r = mpt_identifier_set(src, n1, (int) l1);
	V_ASSERT(r != 0, "set of a permitted length succeeds");
	{
	uint8_t before[S2];
	memcpy(before, b.u.raw, S2);
	r = mpt_identifier_copy(id, src);
	V_ASSERT(r != 0, "copy succeeds");
	for (i = 0; i < S2; i++) V_ASSERT(b.u.raw[i] == before[i], "copy leaves the source untouched");
	V_ASSERT(mpt_identifier_inequal(id, src) == 0, "copy compares equal to its source");
	}
#elif OP == OP_ZERO
	/* binary zero-filled content of length l1 (name == NULL) */
	r = mpt_identifier_set(id, 0, (int) l1);
	V_ASSERT(r != 0, "zero fill of a permitted length succeeds");
	for (i = 0; i < LMAX + 1; i++) n1[i] = 0;
#endif
	guards(a.g0, a.g1); guards(b.g0, b.g1);
	d = mpt_identifier_data(id);
	V_ASSERT(d != 0, "content readable");
#if OP == OP_ZERO
	V_ASSERT(id->_len == l1, "binary length stored exactly");
	for (i = 0; i < LMAX; i++) if (i < l1) V_ASSERT(d[i] == 0, "zero filled content");
#else
	V_ASSERT(id->_len == l1 + 1, "text length stored (with terminator)");
	for (i = 0; i < LMAX; i++) if (i < l1) V_ASSERT(d[i] == n1[i], "content reads back byte for byte");
	V_ASSERT(d[l1] == 0, "text content is terminated");
	V_ASSERT(mpt_identifier_compare(id, n1, (int) l1) == 0, "comparison with the stored name reports equality");
	{
	/* comparison against a different name of the same length must report a difference */
	char other[LMAX + 1];
	int same = 1;
	for (i = 0; i < LMAX + 1; i++) { other[i] = (char) V_IN_U8("other"); if (i < l1 && other[i] != n1[i]) same = 0; }
	V_ASSERT((mpt_identifier_compare(id, other, (int) l1) == 0) == same, "comparison reports equality exactly for equal content");
	}
#endif
	/* release */
	mpt_identifier_set(id, 0, 0);
	mpt_identifier_set(src, 0, 0);
	V_ASSERT(id->_len == 0, "cleared identifier is empty");
	guards(a.g0, a.g1); guards(b.g0, b.g1);
	V_WITNESS_END();
}
