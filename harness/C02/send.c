/*
 * C02 (sender): messages pushed through a framed output queue whose ring starts
 * at offset OFF (driver-side case split over all offsets, so that the frame is
 * written across the wrap-around in some of them).  One message of n <= NMSG
 * symbolic bytes in one or two pushes, terminated; optionally preceded by an
 * earlier finished frame (PREV=1: an empty message) still sitting in the queue.
 * Oracle: the logical queue content (read with the harness' own modular indexing)
 * is exactly: the earlier frame, followed by one well-formed frame that decodes
 * (reference decoder) to the message; state counters match the content length.
 */
#include "verif.h"
#include <string.h>
#include <sys/uio.h>
#include "queue.h"
#include "message.h"
#include "convert.h"
#include "cobs_ref.h"

#ifndef QMAX
# define QMAX 8
#endif
#ifndef NMSG
# define NMSG 3
#endif
#ifndef PREV
# define PREV 0
#endif
static uint8_t es[QMAX];

void harness(void)
{
	MPT_STRUCT(encode_queue) eq = MPT_ENCODE_QUEUE_INIT;
	uint8_t m[NMSG], flat[QMAX], out[2 * NMSG + 2];
	size_t n = V_IN_RANGE("n", 0, NMSG), s1 = V_IN_RANGE("split", 0, NMSG), i, skip = 0, olen, used;
	ssize_t r;
	int rr;
	V_ASSUME(s1 <= n);
	for (i = 0; i < NMSG; i++) m[i] = V_IN_U8("m");
	for (i = 0; i < QMAX; i++) es[i] = V_IN_U8("stale");
	eq.data.base = es; eq.data.max = QMAX; eq.data.off = OFF; eq._enc = ENC;
#if PREV
	/* PREV earlier empty messages, each framed as two bytes, stay queued in front */
	for (i = 0; i < PREV; i++) {
		r = mpt_queue_push(&eq, 0, 0);
		V_ASSERT(r >= 0 && eq.data.len == 2 * (i + 1), "an empty message is framed as two bytes");
	}
	skip = 2 * PREV;
	V_ASSUME(n + 2 + skip <= QMAX);
#endif
	if (s1) { r = mpt_queue_push(&eq, s1, m); V_ASSERT(r == (ssize_t) s1, "first part accepted (space is available)"); }
	if (n > s1) { r = mpt_queue_push(&eq, n - s1, m + s1); V_ASSERT(r == (ssize_t) (n - s1), "second part accepted (space is available)"); }
	r = mpt_queue_push(&eq, 0, 0);
	V_ASSERT(r >= 0, "termination accepted");
	V_ASSERT(eq._state.scratch == 0 && eq._state.done == eq.data.len, "all queued bytes are finished frames");
	V_ASSERT(eq.data.len <= QMAX && eq.data.len >= skip + 2, "queue length within the ring");
	for (i = 0; i < QMAX; i++) flat[i] = es[(eq.data.off + i) % QMAX];
#if PREV
	for (i = 0; i < PREV; i++) V_ASSERT(flat[2 * i] == 1 && flat[2 * i + 1] == 0, "the earlier frames are still in front, unchanged");
#endif
	rr = ref_decode(VARIANT, flat + skip, eq.data.len - skip, out, &olen, &used);
	V_ASSERT(rr == 1 && used == eq.data.len - skip, "queued bytes form exactly one well-formed frame");
	V_ASSERT(olen == n, "frame decodes to the message length");
	for (i = 0; i < NMSG; i++) if (i < n) V_ASSERT(out[i] == m[i], "frame decodes to the message bytes");
	V_WITNESS_END();
}
