/*
 * C02 (S-recv): one mpt_queue_recv on a framed input queue whose ring holds L
 * arbitrary bytes at an arbitrary offset (wrapped or not), decoder at the start of
 * a frame; then, if the reader asked for more, the remaining bytes are delivered
 * (mpt_qpush) and recv is called again.  Oracle: reference decoder on the logical
 * byte string: a complete well-formed frame becomes available exactly when its
 * last byte has arrived and equals the reference message (read through
 * mpt_message_get, 1 or 2 fragments); nothing is delivered for incomplete or
 * malformed input.
 */
#include "verif.h"
#include <string.h>
#include <sys/uio.h>
#include "queue.h"
#include "message.h"
#include "convert.h"
#include "cobs_ref.h"

#ifndef QMAX
# define QMAX 6
#endif
#ifndef KF_C02_RECV_STALL_CODEBYTE
# define KF_C02_RECV_STALL_CODEBYTE 0
#endif
#ifndef TWO_SEG
# define TWO_SEG 0
#endif
#ifndef LMAX
# define LMAX 4
#endif
static uint8_t store[QMAX];

static void judge(int r, MPT_STRUCT(decode_queue) *dq, const uint8_t *bytes, size_t avail)
{
	uint8_t ref[2 * LMAX + 2], out[2 * LMAX + 2];
	size_t rlen, rused, i, got;
	int rr = ref_decode(VARIANT, bytes, avail, ref, &rlen, &rused);
	MPT_STRUCT(message) msg; struct iovec vec;
	if (rr == 1) {
		V_ASSERT(r == 1 || (VARIANT >= REF_ZPE && r == MPT_ERROR(MissingBuffer)), "a complete frame makes its message available");
		if (r == 1) {
			V_ASSERT(dq->_state.data.msg >= 0 && (size_t) dq->_state.data.msg == rlen, "received length equals the reference");
			V_ASSERT(mpt_message_get(&dq->data, dq->_state.data.pos, dq->_state.data.msg, &msg, &vec) >= 0, "message can be viewed");
			got = mpt_message_read(&msg, 2 * LMAX + 2, out);
			V_ASSERT(got == rlen, "view has the message length");
			for (i = 0; i < 2 * LMAX; i++) if (i < rlen) V_ASSERT(out[i] == ref[i], "received bytes equal the reference message");
		}
	} else {
		V_ASSERT(r != 1, "no message for incomplete or malformed input");
	}
}

void harness(void)
{
	MPT_STRUCT(decode_queue) dq = MPT_DECODE_QUEUE_INIT;
	uint8_t bytes[LMAX];
	#ifdef OFF
	size_t off = OFF,
#else
	size_t off = V_IN_RANGE("off", 0, QMAX - 1),
#endif
	L = V_IN_RANGE("L", 1, LMAX), L1 = V_IN_RANGE("L1", 1, LMAX), i;
	int r;
	V_ASSUME(L1 <= L);
#if !TWO_SEG
	V_ASSUME(L1 == L);
#endif
	for (i = 0; i < LMAX; i++) bytes[i] = V_IN_U8("byte");
	for (i = 0; i < QMAX; i++) store[i] = V_IN_U8("stale");
	dq.data.base = store; dq.data.max = QMAX; dq.data.off = off; dq.data.len = 0; dq._dec = DEC;
	/* region: the first segment ends right after the first block code byte (nothing
	 * decoded yet): the reader crops the consumed byte and loses its output slack */
	V_KF(KF_C02_RECV_STALL_CODEBYTE, L1 < L && L1 == 1 && bytes[0] != 0);
	V_ASSERT(mpt_qpush(&dq.data, L1, bytes) >= 0, "ring accepts the first segment");
	r = mpt_queue_recv(&dq);
	if (L1 < L && r != 1) {
		uint8_t pre[LMAX]; size_t pl, ul; int rr;
		rr = ref_decode(VARIANT, bytes, L1, pre, &pl, &ul);
		V_ASSERT(r == 0 || rr == -1, "an incomplete frame makes the reader wait");
		if (r == 0) {
			V_ASSERT(mpt_qpush(&dq.data, L - L1, bytes + L1) >= 0, "ring accepts the second segment");
			r = mpt_queue_recv(&dq);
			judge(r, &dq, bytes, L);
		}
	} else {
		judge(r, &dq, bytes, L1);
	}
	V_WITNESS_END();
}
