/*
 * C02 (S-shift): mpt_queue_shift() on an input queue in an arbitrary consistent
 * reader state.  Ring of QMAX bytes, offset by driver-side case split (-DOFF),
 * fill, bytes and the reader offsets (processed bytes `curr`, message start `pos`,
 * decoded length `mlen` with pos + mlen <= curr <= fill) symbolic.
 * Oracle: the consumed prefix is removed (all of `curr` when no message is
 * pending, otherwise the bytes in front of the message), the remaining logical
 * content is the old content without that prefix, and the reader offsets are
 * moved by exactly the removed amount - so the pending message and the
 * unprocessed input keep their bytes.  Includes removals that pass the physical
 * end of the ring.
 */
#include "verif.h"
#include <string.h>
#include <sys/uio.h>
#include "queue.h"
#include "message.h"
#include "convert.h"

#ifndef QMAX
# define QMAX 6
#endif
#ifndef OFF
# define OFF 4
#endif
static uint8_t store[QMAX];

void harness(void)
{
	MPT_STRUCT(decode_queue) dq = MPT_DECODE_QUEUE_INIT;
	uint8_t model[QMAX];
	size_t off = OFF, fill = V_IN_RANGE("fill", 0, QMAX), curr = V_IN_RANGE("curr", 0, QMAX),
	       pos = V_IN_RANGE("pos", 0, QMAX), mlen = V_IN_RANGE("mlen", 0, QMAX), rem, i;

	V_ASSUME(curr <= fill && pos + mlen <= curr);
	for (i = 0; i < QMAX; i++) store[i] = V_IN_U8("ring");
	for (i = 0; i < QMAX; i++) model[i] = store[(off + i) % QMAX];
	dq.data.base = store; dq.data.max = QMAX; dq.data.off = off; dq.data.len = fill;
	dq._state.curr = curr; dq._state.data.pos = pos; dq._state.data.len = mlen;
	dq._state.data.msg = V_IN_BOOL("complete") ? (ssize_t) mlen : -1;

	mpt_queue_shift(&dq);

	rem = (pos || mlen) ? pos : curr;
	V_ASSERT(dq.data.len == fill - rem, "exactly the consumed prefix is removed");
	V_ASSERT(dq.data.max == QMAX && dq.data.base == store && dq.data.off < QMAX, "ring geometry stays valid");
	for (i = 0; i < QMAX; i++) if (i < fill - rem) V_ASSERT(store[(dq.data.off + i) % QMAX] == model[rem + i], "remaining content keeps its bytes in order");
	V_ASSERT(dq._state.curr == curr - rem, "processed-bytes offset moves with the removed prefix");
	V_ASSERT(dq._state.data.pos == ((pos || mlen) ? pos - rem : 0), "message start moves with the removed prefix");
	V_ASSERT(dq._state.data.len == mlen, "decoded length unchanged");
	V_WITNESS_END();
}
