/*
 * C02 (E-pipe): one message through a framed output queue, carried as a byte
 * stream cut into two segments at a symbolic point, read through a framed input
 * queue.  Ring storage of both queues: QMAX bytes, start offsets OFF_E / OFF_D
 * (driver-side case split, or symbolic with -DSYM_OFF).  Oracle: the receiver
 * obtains exactly the sent message, once; when all bytes of the frame have
 * arrived the message is available.
 * -DENC / -DDEC select the framing.
 */
#include "verif.h"
#include <string.h>
#include <sys/uio.h>
#include "queue.h"
#include "message.h"
#include "convert.h"

#ifndef QMAX
# define QMAX 8
#endif
#ifndef NMSG
# define NMSG 2
#endif

static uint8_t es[QMAX], ds[QMAX];

void harness(void)
{
	MPT_STRUCT(encode_queue) eq = MPT_ENCODE_QUEUE_INIT;
	MPT_STRUCT(decode_queue) dq = MPT_DECODE_QUEUE_INIT;
	uint8_t m[NMSG], wire[QMAX], out[NMSG + 1];
	size_t n = V_IN_RANGE("n", 0, NMSG), i, wl, cut, got = 0;
	ssize_t r;
	int recv1, recv2 = 0, delivered = 0;
	MPT_STRUCT(message) msg;
	struct iovec vec;

	for (i = 0; i < NMSG; i++) m[i] = V_IN_U8("m");
#ifdef SYM_OFF
	eq.data.off = V_IN_RANGE("off_e", 0, QMAX - 1);
	dq.data.off = V_IN_RANGE("off_d", 0, QMAX - 1);
#else
	eq.data.off = OFF_E; dq.data.off = OFF_D;
#endif
	eq.data.base = es; eq.data.max = QMAX; eq._enc = ENC;
	dq.data.base = ds; dq.data.max = QMAX; dq._dec = DEC;

	/* ---- sender ---- */
	if (n) {
		r = mpt_queue_push(&eq, n, m);
		V_ASSERT(r == (ssize_t) n, "message bytes are accepted by the output queue");
	}
	r = mpt_queue_push(&eq, 0, 0);
	V_ASSERT(r >= 0, "message termination is accepted");
	wl = eq._state.done;
	V_ASSERT(eq._state.scratch == 0 && wl == eq.data.len && wl >= 2 && wl <= QMAX, "finished frame is the queue content");
	V_ASSERT(mpt_qshift(&eq.data, wl, wire) != 0, "frame bytes can be taken from the output queue");
	for (i = 0; i < QMAX; i++) if (i + 1 < wl) V_ASSERT(wire[i] != 0, "no delimiter inside the frame");
	V_ASSERT(wire[wl - 1] == 0, "frame ends with the delimiter");

	/* ---- wire: two segments ---- */
	cut = V_IN_RANGE("cut", 0, QMAX);
	V_ASSUME(cut <= wl);
	if (cut) V_ASSERT(mpt_qpush(&dq.data, cut, wire) >= 0, "input queue has room for the first segment");
	recv1 = cut ? mpt_queue_recv(&dq) : 0;
	if (recv1 == 1) delivered++;
	else V_ASSERT(recv1 == 0 || (!cut && recv1 < 0) || recv1 == MPT_ERROR(MissingData), "incomplete frame: reader waits");
	if (cut < wl) {
		V_ASSERT(recv1 != 1, "no message before its frame is complete");
		V_ASSERT(mpt_qpush(&dq.data, wl - cut, wire + cut) >= 0, "input queue has room for the second segment");
		recv2 = mpt_queue_recv(&dq);
		if (recv2 == 1) delivered++;
	}
	V_ASSERT(delivered == 1, "once the whole frame has arrived the message is available, exactly once");
	V_ASSERT(dq._state.data.msg >= 0 && (size_t) dq._state.data.msg == n, "received length equals the sent length");
	r = mpt_message_get(&dq.data, dq._state.data.pos, dq._state.data.msg, &msg, &vec);
	V_ASSERT(r >= 0, "received message can be viewed");
	got = mpt_message_read(&msg, NMSG + 1, out);
	V_ASSERT(got == n, "view has the message length");
	for (i = 0; i < NMSG; i++) if (i < n) V_ASSERT(out[i] == m[i], "received bytes equal the sent bytes");
	V_WITNESS_END();
}
