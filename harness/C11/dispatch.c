/*
 * C11: one dispatcher operation from a constructed command table.
 * Table: static buffer with room for NS slots (harness vtable: private, mutable,
 * cannot grow) holding `nslots` slots, each empty or a live registration with an
 * id from {1,2,3} (live ids distinct = invariant); default id symbolic.
 * Handlers are one harness function; its argument identifies the registration.
 * Ghost per registration: alive, finalisations, invoked after finalisation.
 * -DOP selects {SET, CLEAR, EMIT_ID, EMIT_MSG, EMIT_DEFAULT, FINI}.
 */
#include "verif.h"
#include <string.h>
#include "types.h"
#include "array.h"
#include "message.h"
#include "meta.h"
#include "output.h"
#include "event.h"

#define NS 4
#define OP_SET 1
#define OP_CLEAR 2
#define OP_EMIT_ID 3
#define OP_EMIT_MSG 4
#define OP_EMIT_DEFAULT 5
#define OP_FINI 6
#define OP_REPLACE 7

#define NREG (NS + 2)   /* table slots + new registration + fallback */
#define R_NEW NS
#define R_ERR (NS + 1)
static int alive[NREG], fin[NREG], calls[NREG], bad_after_final;
static uintptr_t seen_id[NREG];
static int h_ret;           /* what the invoked handler returns */
static uintptr_t h_newid;   /* handler may rewrite ev->id */
static int h_rewrite;

int h_event(void *arg, MPT_STRUCT(event) *ev)
{
	int k = (int) ((int *) arg - alive);
	if (!ev) {
		fin[k]++;
		alive[k] = 0;
		return 0;
	}
	if (!alive[k]) bad_after_final = 1;
	calls[k]++;
	seen_id[k] = ev->id;
	if (h_rewrite) ev->id = h_newid;
	return h_ret;
}
int mpt_log(MPT_INTERFACE(logger) *l, const char *f, int t, const char *fmt, ...) { (void) l; (void) f; (void) t; (void) fmt; return 0; }
int mpt_context_reply(MPT_INTERFACE(reply_context) *rc, int code, const char *fmt, ...) { (void) rc; (void) code; (void) fmt; return 0; }

uint32_t h_buf_flags(const MPT_STRUCT(buffer) *b) { (void) b; return MPT_ENUM(BufferNoCopy); }
void h_buf_unref(MPT_STRUCT(buffer) *b)
{
	/* last handle: element finalisation as the real allocator does */
	const MPT_STRUCT(type_traits) *t = b->_content_traits;
	size_t pos;
	if (t && t->fini) for (pos = 0; pos + t->size <= b->_used; pos += t->size) t->fini(((uint8_t *) (b + 1)) + pos);
	b->_used = 0;
}
uintptr_t h_buf_addref(MPT_STRUCT(buffer) *b) { (void) b; return 0; }
MPT_STRUCT(buffer) *h_buf_detach(MPT_STRUCT(buffer) *b, size_t len) { return len <= b->_size ? b : 0; }
static const MPT_INTERFACE_VPTR(buffer) h_vptr = { h_buf_flags, h_buf_unref, h_buf_addref, h_buf_detach };
static struct { MPT_STRUCT(buffer) buf; MPT_STRUCT(command) slot[NS]; } tab = { { &h_vptr, 0, sizeof(MPT_STRUCT(command)) * NS, 0 } };

void harness(void)
{
	MPT_STRUCT(dispatch) d = MPT_DISPATCH_INIT;
	size_t nslots = V_IN_RANGE("nslots", 0, NS), i, j;
	uintptr_t id = V_IN_RANGE("id", 0, 4), def0 = V_IN_RANGE("default", 0, 3);
	int target = -1, r, live0[NS];

	tab.buf._content_traits = mpt_command_traits();
	tab.buf._used = nslots * sizeof(MPT_STRUCT(command));
	for (i = 0; i < NS; i++) {
		int on = V_IN_BOOL("live");
		tab.slot[i].id = V_IN_RANGE("slot_id", 1, 3);
		live0[i] = on && i < nslots;
		tab.slot[i].cmd = live0[i] ? (int (*)(void *, void *)) h_event : 0;
		tab.slot[i].arg = live0[i] ? (void *) &alive[i] : (void *) 0;
		alive[i] = live0[i];
	}
	for (i = 0; i < NS; i++) for (j = 0; j < i; j++) if (live0[i] && live0[j]) V_ASSUME(tab.slot[i].id != tab.slot[j].id);
	d._d._buf = &tab.buf;
	d._def = def0;
	d._err.cmd = h_event; d._err.arg = &alive[R_ERR]; alive[R_ERR] = 1;
	for (i = 0; i < NS; i++) if (live0[i] && tab.slot[i].id == id) target = (int) i;
	h_ret = (int) V_IN_RANGE("handler_return", 0, 4) - 1;     /* -1, None, Default, Fail, Default|Fail */
	h_rewrite = V_IN_BOOL("handler_rewrites_id"); h_newid = V_IN_RANGE("new_id", 0, 3);

#if OP == OP_SET
	alive[R_NEW] = 1;
	r = mpt_dispatch_set(&d, id, h_event, &alive[R_NEW]);
	if (target >= 0 || id == 0 && 0) {
		V_ASSERT(r < 0, "registering an id that is in use is refused");
		V_ASSERT(fin[R_NEW] == 0 && alive[target], "refused registration changes nothing");
	} else if (r >= 0) {
		MPT_STRUCT(command) *c = mpt_command_get(&d._d, id);
		V_ASSERT(c && c->arg == &alive[R_NEW], "new registration is the one found for its id");
	} else {
		/* table full and cannot grow */
		V_ASSERT(nslots == NS, "registration fails only when no slot is available");
		{ int any_free = 0; for (i = 0; i < NS; i++) if (!live0[i]) any_free = 1; V_ASSERT(!any_free, "a freed slot is reused"); }
	}
	for (i = 0; i < NS; i++) if (live0[i]) {
		MPT_STRUCT(command) *c = mpt_command_get(&d._d, tab.slot[i].id);
		V_ASSERT(alive[i] && fin[i] == 0, "other registrations are not finalised");
		V_ASSERT(c && c->arg == &alive[i], "other registrations keep resolving to their handler");
	}
#elif OP == OP_REPLACE
	/* replacement through the command table itself (mpt_dispatch_set refuses ids in use) */
	alive[R_NEW] = 1;
	r = mpt_command_set(&d._d, id, h_event, &alive[R_NEW]);
	if (target >= 0) {
		MPT_STRUCT(command) *c = mpt_command_get(&d._d, id);
		V_ASSERT(r >= 0, "replacing a registered handler succeeds");
		V_ASSERT(fin[target] == 1 && !alive[target], "replaced handler gets exactly one end-of-life notification");
		V_ASSERT(c && c->arg == &alive[R_NEW] && fin[R_NEW] == 0, "the id now resolves to the new, live handler");
	}
	for (i = 0; i < NS; i++) if (live0[i] && (int) i != target) V_ASSERT(alive[i] && fin[i] == 0, "other registrations untouched");
#elif OP == OP_CLEAR
	r = mpt_dispatch_set(&d, id, 0, 0);
	if (target < 0) V_ASSERT(r < 0, "clearing an unregistered id is refused");
	else {
		V_ASSERT(r >= 0, "clearing a registered id succeeds");
		V_ASSERT(fin[target] == 1 && !alive[target], "removed handler gets exactly one end-of-life notification");
		V_ASSERT(mpt_command_get(&d._d, id) == 0, "removed id no longer resolves");
	}
	for (i = 0; i < NS; i++) if (live0[i] && (int) i != target) V_ASSERT(alive[i] && fin[i] == 0, "other registrations untouched");
#elif OP == OP_EMIT_ID || OP == OP_EMIT_MSG || OP == OP_EMIT_DEFAULT
	{
	MPT_STRUCT(event) ev = MPT_EVENT_INIT;
	MPT_STRUCT(message) msg;
	uint8_t mb[2];
	int expect;
	uintptr_t eid = id, newdef = def0;
# if OP == OP_EMIT_MSG
	mb[0] = (uint8_t) id; mb[1] = 7;
	msg.base = mb; msg.used = 2; msg.cont = 0; msg.clen = 0;
	ev.msg = &msg; ev.id = 77;
	r = mpt_dispatch_emit(&d, &ev);
# elif OP == OP_EMIT_ID
	ev.id = id;
	r = mpt_dispatch_emit(&d, &ev);
# else
	/* default event: id = stored default */
	eid = def0; target = -1;
	for (i = 0; i < NS; i++) if (live0[i] && tab.slot[i].id == def0) target = (int) i;
	r = mpt_dispatch_emit(&d, 0);
# endif
	expect = target >= 0 ? target : R_ERR;
# if OP == OP_EMIT_DEFAULT
	if (!def0) { V_ASSERT(r == 0, "no default event: nothing happens"); expect = -1; }
	else if (target < 0) { V_ASSERT(r < 0 && d._def == 0, "stale default id is reported and forgotten"); expect = -1; }
# endif
	for (i = 0; i < NREG; i++) {
		if ((int) i == expect) V_ASSERT(calls[i] == 1 && seen_id[i] == eid, "the handler registered for the id is invoked once with that id");
		else V_ASSERT(calls[i] == 0, "no other handler is invoked");
	}
	if (expect >= 0) {
		uintptr_t fid = h_rewrite ? h_newid : eid;
		if (h_ret < 0) { V_ASSERT(r == h_ret, "handler error is returned"); V_ASSERT(d._def == def0, "default unchanged on error"); }
		else {
			if (h_ret & MPT_EVENTFLAG(Default)) newdef = fid;
			V_ASSERT(d._def == newdef, "default-event bookkeeping follows the returned flags");
			V_ASSERT(r == ((h_ret & ~MPT_EVENTFLAG(Default)) | (newdef ? MPT_EVENTFLAG(Default) : 0)), "returned state = handler flags with default availability");
		}
	}
	for (i = 0; i < NREG; i++) V_ASSERT(fin[i] == 0, "emitting finalises nobody");
	}
#elif OP == OP_FINI
	mpt_dispatch_fini(&d);
	for (i = 0; i < NS; i++) {
		if (live0[i]) V_ASSERT(fin[i] == 1 && !alive[i], "every live registration is finalised exactly once at teardown");
		else V_ASSERT(fin[i] == 0, "empty slots are not finalised");
	}
	V_ASSERT(fin[R_ERR] == 1, "fallback handler is finalised once");
	V_ASSERT(d._def == 0 && d._d._buf == 0, "dispatcher is empty after teardown");
#else
# error OP
#endif
	V_ASSERT(!bad_after_final, "no handler is invoked after its end-of-life notification");
	V_WITNESS_END();
}
