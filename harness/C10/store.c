/*
 * C10 family 2: the process-wide configuration (mpt_config_global) and a sub-tree
 * view of it as a path-to-value map.
 * Real: config_global.c (query/assign/remove, make_global, clear), node_assign.c,
 * node_query.c, path_set.c, path_next.c, node_locate/new/destroy/clear/unlink,
 * generic list insertion, identifier_set.
 * By contract (values are opaque tokens): mpt_meta_new / mpt_meta_set create a
 * counting token metatype.
 * History: NSTEP steps; path (-DSEQ), operation and handle (-DOPS: assign /
 * remove / query / materialise the view's base node, through the global configuration or the view rooted at
 * VIEWBASE) of every step are fixed by the driver - a single symbolic operation
 * already makes the heap shape symbolic and the query does not finish (measured:
 * > 600 s) - the assigned values are symbolic.  After the history
 * every path of the universe is queried and compared with a path -> value map;
 * finally the store is cleared and every value must have been released once.
 */
#include "verif.h"
#include <stdlib.h>
#include <string.h>
#include <sys/uio.h>
#include "types.h"
#include "meta.h"
#include "config.h"
#include "node.h"
#include "collection.h"

#define mpt_gnode_pos verif_gnode_pos_u
static MPT_STRUCT(node) *verif_gnode_pos_u();
#include "node/node_insert.c"
#undef mpt_gnode_pos
static MPT_STRUCT(node) *verif_gnode_pos_u(n, pos, unused)
	const MPT_STRUCT(node) *n; int pos; const MPT_STRUCT(node) *unused;
{
	(void) unused;
	return mpt_gnode_pos(n, pos);
}
int atexit(void (*fn)(void)) { (void) fn; return 0; }

#ifndef NSTEP
# define NSTEP 3
#endif
#ifndef SEQ
# define SEQ { 2, 4, 2 }
#endif

/* path universe; VIEWBASE names the sub-tree view */
#define NP 6
static const char *PT[NP] = { "a", "a.b", "a.c", "b", "a.b.c", "a.b.a" };
#define VIEWBASE "a.b"
#define VIEWSKIP 4           /* strlen("a.b.") */

/* value tokens */
struct hmeta { MPT_INTERFACE(metatype) mt; int id; int refs; };
static struct hmeta pool[NSTEP + 1];
static int npool;
int h_conv(MPT_INTERFACE(convertable) *c, MPT_TYPE(type) t, void *p)
{
	(void) c;
	if (!t) { if (p) *(const uint8_t **) p = 0; return 'i'; }
	return MPT_ERROR(BadType);
}
void h_unref(MPT_INTERFACE(metatype) *m) { struct hmeta *h = (void *) m; V_ASSERT(h->refs > 0, "a stored value is released once"); h->refs--; }
uintptr_t h_ref(MPT_INTERFACE(metatype) *m) { struct hmeta *h = (void *) m; return ++h->refs; }
MPT_INTERFACE(metatype) *h_clone(const MPT_INTERFACE(metatype) *m) { (void) m; return 0; }
static const MPT_INTERFACE_VPTR(metatype) h_vptr = { { h_conv }, h_unref, h_ref, h_clone };
MPT_INTERFACE(metatype) *mpt_meta_new(const MPT_STRUCT(value) *v)
{
	struct hmeta *h;
	V_ASSERT(npool <= NSTEP, "one value per assignment");
	h = &pool[npool++];
	h->mt._vptr = &h_vptr; h->id = *(const int *) v->_addr; h->refs = 1;
	return &h->mt;
}
int mpt_meta_set(MPT_INTERFACE(metatype) **mptr, const MPT_STRUCT(value) *val)
{
	MPT_INTERFACE(metatype) *old = *mptr;
	*mptr = val ? mpt_meta_new(val) : 0;
	if (old) h_unref(old);
	return 0;
}

/* query handler: records what the store reports */
static int seen, seen_id;
int h_handler(void *ctx, MPT_INTERFACE(convertable) *val, const MPT_INTERFACE(collection) *sub)
{
	(void) ctx; (void) sub;
	seen = 1;
	seen_id = val ? ((struct hmeta *) val)->id : 0;
	return 0;
}

/* never reached: sub-collections are not walked, paths own no buffer */
int h_item(void *ctx, const MPT_STRUCT(identifier) *id, MPT_INTERFACE(convertable) *val, const MPT_INTERFACE(collection) *sub)
{
	(void) ctx; (void) id; (void) val; (void) sub;
	V_UNREACHABLE("collection walk is outside this query");
	return 0;
}
static int h_gconv(MPT_INTERFACE(metatype) *m, MPT_INTERFACE(config) **c)
{
	return m->_vptr->convertable.convert((MPT_INTERFACE(convertable) *) m, MPT_ENUM(TypeConfigPtr), c);
}
static int h_gnode(MPT_INTERFACE(metatype) *m, MPT_STRUCT(node) **n)
{
	return m->_vptr->convertable.convert((MPT_INTERFACE(convertable) *) m, MPT_ENUM(TypeNodePtr), n);
}
static int under(int i, int j)   /* PT[i] == PT[j] or PT[i] lies beneath PT[j] */
{
	size_t lj = strlen(PT[j]);
	return !strncmp(PT[i], PT[j], lj) && (PT[i][lj] == 0 || PT[i][lj] == '.');
}

static int m_exists[NP], m_val[NP];

static void setpath(MPT_STRUCT(path) *p, const char *s)
{
	static const MPT_STRUCT(path) init = MPT_PATH_INIT;
	*p = init;
	p->sep = '.'; p->assign = 0;
	mpt_path_set(p, s, -1);
}

void harness(void)
{
	static const int seq[NSTEP] = SEQ;
	MPT_INTERFACE(metatype) *gm, *vm;
	MPT_INTERFACE(config) *g = 0, *v = 0, *cfg;
	MPT_STRUCT(path) p;
	int s, i, j, r;

	gm = mpt_config_global(0);
	V_ASSERT(gm != 0, "process-wide configuration exists");
	r = h_gconv(gm, &g);
#ifdef VIEWOFF
	/* the view's base handed over as the unconsumed rest of a longer path (non-zero offset) */
	setpath(&p, "x." VIEWBASE);
	r = mpt_path_next(&p);
	V_ASSERT(r == 1 && p.off == 2, "first element consumed");
#else
	setpath(&p, VIEWBASE);
#endif
	vm = mpt_config_global(&p);
	V_ASSUME(vm != 0);
	r = h_gconv(vm, &v);
	V_ASSERT(g != 0 && v != 0, "configuration handles offer the config interface");

	for (s = 0; s < NSTEP; s++) {
		int op, via_view;
#ifdef OPS
		static const int ops[NSTEP] = OPS;   /* driver-side case split: 0 assign, 1 remove, 2 query, 3 symbolic, +4 through the view */
		op = ops[s] & 3;
		if (op == 3) {
			/* materialise the view: asking it for its node creates the base path without a value */
			MPT_STRUCT(node) *bn = 0;
			r = h_gnode(vm, &bn);
			V_ASSERT(r >= 0 && bn != 0, "the view offers its base node");
			for (j = 0; j < NP; j++) if (under(1, j)) m_exists[j] = 1;
			V_ASSERT(mpt_identifier_compare(&bn->ident, "b", 1) == 0, "base node carries the last base element's name");
			continue;
		}
		i = seq[s];
		via_view = i >= 4 && (ops[s] & 4);
#else
		op = (int) V_IN_RANGE("op", 0, 2);
		i = seq[s];
		via_view = i >= 4 && V_IN_BOOL("via_view");
#endif
		cfg = via_view ? v : g;
		setpath(&p, via_view ? PT[i] + VIEWSKIP : PT[i]);
		if (op == 0) {
			MPT_STRUCT(value) val;
			int t = V_IN_I32("value");
			V_ASSUME(t != 0);    /* 0 stands for "no value" in the model */
			MPT_value_set(&val, 'i', &t);
			r = cfg->_vptr->assign(cfg, &p, &val);
			V_ASSERT(r >= 0, "assignment to a path is accepted");
			for (j = 0; j < NP; j++) if (under(i, j)) m_exists[j] = 1;     /* the path and its ancestors exist */
			if (via_view) for (j = 0; j < NP; j++) if (!strcmp(PT[j], VIEWBASE) || under(1, j)) m_exists[j] = 1;
			m_val[i] = t;
		}
		else if (op == 1) {
			r = cfg->_vptr->remove(cfg, &p);
			{ int any = 0; for (j = 0; j < NP; j++) any |= m_exists[j];
			  /* on a completely empty store removal answers BadOperation instead of 0: nothing was removed either way */
			  if (m_exists[i]) V_ASSERT(r == 1, "removal reports whether the path existed");
			  else V_ASSERT(any ? r == 0 : r <= 0, "removal reports whether the path existed"); }
			if (m_exists[i]) for (j = 0; j < NP; j++) if (under(j, i)) { m_exists[j] = 0; m_val[j] = 0; }
		}
		else {
			seen = 0; seen_id = -1;
			r = cfg->_vptr->query(cfg, &p, h_handler, 0);
			if (!m_exists[i]) V_ASSERT(r < 0 && !seen, "absence is reported");
			else { V_ASSERT(r >= 0 && seen, "an existing path is found"); V_ASSERT(seen_id == m_val[i], "query returns the value most recently assigned to exactly that path"); }
		}
	}
	/* final sweep through the global handle */
	for (i = 0; i < NP; i++) {
		setpath(&p, PT[i]);
		seen = 0; seen_id = -1;
		r = g->_vptr->query(g, &p, h_handler, 0);
		if (!m_exists[i]) V_ASSERT(r < 0 && !seen, "sweep: absent path is absent");
		else { V_ASSERT(r >= 0 && seen, "sweep: existing path is found"); V_ASSERT(seen_id == m_val[i], "sweep: every path holds the value most recently assigned to it"); }
	}
	/* clear everything: every value is released exactly once */
	p.len = 0;
	r = g->_vptr->remove(g, &p);
	{ int any = 0; for (i = 0; i < NP; i++) any |= m_exists[i];
	  /* clearing an already empty store is answered with BadOperation: nothing to clear */
	  V_ASSERT(any ? r == 0 : r <= 0, "clearing the configuration succeeds"); }
	for (i = 0; i < npool; i++) V_ASSERT(pool[i].refs == 0, "every stored value is released when its path goes away");
	vm->_vptr->unref(vm);
	V_WITNESS_END();
}
