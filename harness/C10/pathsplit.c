/*
 * C10 family 1: splitting a path string into elements.
 * s = PRE concrete 'a' characters followed by a symbolic tail of <= T characters
 * over {a, b, sep, NUL}; mpt_path_set then mpt_path_next to exhaustion must visit
 * exactly the separator-delimited components of the string (count, offsets,
 * lengths, empty elements); mpt_path_last names the last component.
 */
#include "verif.h"
#include <string.h>
#include "config.h"

#ifndef PRE
# define PRE 0
#endif
#ifndef T
# define T 5
#endif
#define SEP '.'

void harness(void)
{
	static char s[PRE + T + 1];
	MPT_STRUCT(path) p = MPT_PATH_INIT, q;
	size_t i, n, start = 0, k = 0, last_start = 0, last_len = 0;
	int elem, r;
	static const char al[4] = { 'a', 'b', SEP, 0 };

	for (i = 0; i < PRE; i++) s[i] = 'a';
	for (i = 0; i < T; i++) s[PRE + i] = al[V_IN_RANGE("ch", 0, 3)];
	s[PRE + T] = 0;
	for (n = PRE; n < PRE + T && s[n]; n++) { }
	p.sep = SEP; p.assign = 0;
	elem = mpt_path_set(&p, s, -1);
	V_ASSERT(elem >= 1, "a terminated string has at least one element");
	q = p;
	/* reference walk */
	/* the concrete prefix holds no separator: start the walk behind it */
	for (i = PRE; i <= n; i++) {
		if (i == n || s[i] == SEP) {
			size_t off_before = p.off;
			r = mpt_path_next(&p);
			V_ASSERT(r >= 0, "every component is visited");
			V_ASSERT((size_t) r == i - start, "component length equals the separator-delimited length");
			V_ASSERT(off_before == start, "component starts where the previous one ended");
			last_start = start; last_len = i - start;
			start = i + 1;
			k++;
		}
	}
	V_ASSERT((int) k == elem, "element count equals separators + 1");
	V_ASSERT(mpt_path_next(&p) < 0, "walking past the last component is reported");
	r = mpt_path_last(&q);
	V_ASSERT(r >= 0 && (size_t) r == last_len && q.off == last_start, "last element is the final component");
	V_WITNESS_END();
}
